"""A *world*: one forked process in which pdb2pqr code runs under the simulator's seams."""

from __future__ import annotations

import importlib
import logging
import os
import shutil
import sys
import tempfile

REPO_FILE = None  # pdb2pqr.__file__ as imported
REPO_PKG_DIR = None  # .../pdb2pqr/
_JOB_KINDS = {}


def preimport(repo):
    """Import the repository under test (and its heavy dependencies) once."""
    global REPO_FILE, REPO_PKG_DIR
    from sim import clock

    clock.install()  # before the repository is imported (see sim/clock.py)
    import pdb2pqr  # noqa: F401

    REPO_FILE = os.path.realpath(pdb2pqr.__file__)
    REPO_PKG_DIR = os.path.dirname(REPO_FILE) + os.sep
    want = os.path.realpath(os.path.join(repo, "pdb2pqr")) + os.sep
    if REPO_PKG_DIR != want:
        raise RuntimeError(f"pdb2pqr imported from {REPO_PKG_DIR}, expected {want}")
    for mod in (
        "pdb2pqr.main", "pdb2pqr.io", "pdb2pqr.cells", "pdb2pqr.debump",
        "pdb2pqr.hydrogens", "pdb2pqr.hydrogens.structures", "pdb2pqr.hydrogens.optimize",
        "pdb2pqr.forcefield", "pdb2pqr.biomolecule", "pdb2pqr.residue",
        "pdb2pqr.structures", "pdb2pqr.ligand.mol2", "pdb2pqr.psize", "pdb2pqr.inputgen",
        "pdb2pqr.cif", "pdb2pqr.pdb", "pdb2pqr.definitions", "pdb2pqr.aa", "pdb2pqr.na",
        "propka", "propka.input", "propka.output", "propka.molecular_container",
        "propka.parameters", "pdbx", "numpy", "requests",
    ):
        importlib.import_module(mod)
    # logging: handlers would only cost time; f-strings in log calls are still evaluated
    # because logging.disable() is consulted after argument evaluation.
    logging.disable(logging.CRITICAL)


def make_scratch_base():
    for cand in ("/dev/shm", tempfile.gettempdir()):
        try:
            if os.path.isdir(cand) and os.access(cand, os.W_OK):
                return tempfile.mkdtemp(prefix="pdb2pqr-verif-", dir=cand)
        except OSError:
            continue
    raise RuntimeError("no writable scratch location")


def job_scratch(scratch_base, job_id):
    d = os.path.join(scratch_base, "job-" + str(job_id).replace("/", "_"))
    os.makedirs(d, exist_ok=True)
    return d


def remove_job_scratch(scratch_base, job_id):
    shutil.rmtree(os.path.join(scratch_base, "job-" + str(job_id).replace("/", "_")),
                  ignore_errors=True)


def remove_scratch_base(scratch_base):
    shutil.rmtree(scratch_base, ignore_errors=True)


def job_kind(name):
    def deco(fn):
        _JOB_KINDS[name] = fn
        return fn
    return deco


def run_job(job, scratch_base):
    kind = job["kind"]
    if kind not in _JOB_KINDS:
        # check modules register their job kinds on import
        importlib.import_module("checks." + kind.split(".")[0])
    fn = _JOB_KINDS[kind]
    scratch = job_scratch(scratch_base, job["id"])
    return fn(job, scratch)

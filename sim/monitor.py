"""sys.monitoring based step counter and crash/fault injector.

Every LINE / PY_START event inside the repository's own code objects is one simulated
*step*.  Steps are counted deterministically (events of non-repo code are disabled on
first sight and never counted).  A fault fires at a chosen step, at a chosen source
location (file, qualname, line, n-th occurrence) or at a *stage* boundary, where a
stage is any repo function called directly from a driver frame (main_driver /
non_trivial; discovered by name with graceful fallback).
"""

from __future__ import annotations

import json
import os
import sys

MON = sys.monitoring
TOOL_ID = 4
EV = MON.events

EXC_TYPES = {
    "MemoryError": MemoryError,
    "KeyboardInterrupt": KeyboardInterrupt,
    "RecursionError": RecursionError,
    "ValueError": ValueError,
}


class SimulatedFault(Exception):
    pass


class RunMonitor:
    def __init__(self, pkg_dir, seam=None, faults=None, record_lines=False, death_fd=None,
                 lines=True):
        self.pkg = pkg_dir
        self.seam = seam
        self.record_lines = record_lines
        self.death_fd = death_fd
        self.use_lines = lines
        self.n_line = 0
        self.n_start = 0
        self.fired = []
        self.stage_counts = {}
        self.stage_order = []
        self.line_first = {}
        self.line_count = {}
        self.foreign_in_window = {}
        self.window_line_range = [None, None]
        self.driver_codes = self._find_driver_codes()
        self._pending = None
        self.at_faults = {}  # step index -> fault
        self.start_faults = {}  # PY_START index -> fault
        self.loc_faults = {}  # (relfile, qualname, line) -> [occ_wanted, seen, fault]
        self.stage_faults = {}  # (qualname, when) -> [occ_wanted, fault]
        self.foreign_fault = None  # fires at the first repo call made while the output is open
        self.stage_spans = []  # [name, PY_START index at entry, PY_START index at return]
        self._stage_open = {}
        for f in faults or []:
            self.add_fault(f)
        self._active = False

    @staticmethod
    def _find_driver_codes():
        """Driver frames = every function or method defined in pdb2pqr/main.py (the module
        that sequences the pipeline), found by walking the module -- not a list of names,
        so splitting or renaming the driver functions, or moving them into a class, keeps
        the stage boundaries discoverable.  A stage is any repository function called
        directly from a driver frame."""
        codes = set()
        try:
            import inspect

            from pdb2pqr import main as main_mod

            fname = getattr(main_mod, "__file__", None)

            def add(obj, depth=0):
                fn = getattr(obj, "__func__", obj)
                code = getattr(fn, "__code__", None)
                if code is not None and code.co_filename == fname:
                    codes.add(code)

            for obj in vars(main_mod).values():
                if inspect.isfunction(obj):
                    add(obj)
                elif inspect.isclass(obj) and getattr(obj, "__module__", None) == main_mod.__name__:
                    for member in vars(obj).values():
                        if isinstance(member, (staticmethod, classmethod)):
                            add(member.__func__)
                        elif inspect.isfunction(member):
                            add(member)
                        elif isinstance(member, property):
                            for acc in (member.fget, member.fset):
                                if acc is not None:
                                    add(acc)
            # the argument-parser builder and the CLI shell are not pipeline sequencing
            for name in ("build_main_parser", "main", "run_pdb2pqr", "dx_to_cube"):
                fn = getattr(main_mod, name, None)
                if fn is not None and hasattr(fn, "__code__"):
                    codes.discard(fn.__code__)
        except Exception:  # noqa: BLE001 - no driver frames known: stage faults never fire
            pass
        return codes

    def add_fault(self, f):
        k = f["k"]
        if k in ("exc", "kill"):
            if f.get("event") == "FOREIGN":
                self.foreign_fault = f
            elif "loc" in f:
                rel, qual, line, occ = f["loc"]
                self.loc_faults[(rel, qual, line)] = [occ, 0, f]
            elif f.get("event") == "PY_START":
                self.start_faults[int(f["at"])] = f
            else:
                self.at_faults[int(f["at"])] = f
        elif k == "stage":
            self.stage_faults[(f["stage"], f["when"])] = [f.get("occ", 1), f]

    # ------------------------------------------------------------------ control
    def start(self):
        MON.use_tool_id(TOOL_ID, "pdb2pqr-verif")
        MON.register_callback(TOOL_ID, EV.PY_START, self._on_start)
        MON.register_callback(TOOL_ID, EV.PY_RETURN, self._on_return)
        events = EV.PY_START | EV.PY_RETURN
        if self.use_lines:
            MON.register_callback(TOOL_ID, EV.LINE, self._on_line)
            events |= EV.LINE
        MON.set_events(TOOL_ID, events)
        self._active = True

    def stop(self):
        if self._active:
            MON.set_events(TOOL_ID, 0)
            for ev in (EV.PY_START, EV.PY_RETURN, EV.LINE):
                MON.register_callback(TOOL_ID, ev, None)
            MON.free_tool_id(TOOL_ID)
            self._active = False

    def step(self):
        return self.n_line

    # ------------------------------------------------------------------ firing
    def _window_flags(self, code):
        s = self.seam
        if s is None:
            return {"out_open": False, "in_window": False, "interleaved": False,
                    "after_window": False}
        is_open = s.out_open > 0
        owner = s.out_owner
        closed_before = any(e[0] == "close" for e in s.out_events)
        if not is_open and owner is None and not s.out_events and \
                code.co_name == "print_pqr" and code.co_filename.endswith("main.py"):
            # the seam has not seen the output being opened (it may be written through a
            # channel the seam does not wrap): fall back to the anchor named by the property
            # (main.py print_pqr) so that a blind seam cannot turn an in-window fault into
            # an alarm
            return {"out_open": False, "in_window": True, "interleaved": False,
                    "after_window": False, "window_by_anchor": True}
        return {
            "out_open": is_open,
            "in_window": bool(is_open and code is owner),
            "interleaved": bool(is_open and code is not owner),
            "after_window": bool((not is_open) and closed_before),
        }

    def _fire(self, f, code, line):
        rec = {"k": f["k"], "exc": f.get("exc"), "file": code.co_filename[len(self.pkg):],
               "qualname": code.co_qualname, "line": line, "step": self.n_line,
               "start_index": self.n_start, "stage": f.get("stage"), "when": f.get("when")}
        rec.update(self._window_flags(code))
        self.fired.append(rec)
        if f["k"] == "kill":
            if self.death_fd is not None:
                try:
                    os.write(self.death_fd, (json.dumps({"death": rec}) + "\n").encode())
                except OSError:
                    pass
            os._exit(137)
        raise EXC_TYPES[f.get("exc", "MemoryError")](
            f"simulated fault ({f['k']}) at {rec['file']}:{line} step {self.n_line}")

    # ------------------------------------------------------------------ callbacks
    def _on_line(self, code, line):
        fn = code.co_filename
        if not fn.startswith(self.pkg):
            return MON.DISABLE
        self.n_line += 1
        n = self.n_line
        s = self.seam
        if s is not None and s.out_open > 0:
            r = self.window_line_range
            if r[0] is None:
                r[0] = n
            r[1] = n
        if self.record_lines:
            key = (fn[len(self.pkg):], code.co_qualname, line)
            c = self.line_count.get(key)
            if c is None:
                self.line_first[key] = n
                self.line_count[key] = 1
            else:
                self.line_count[key] = c + 1
        if self._pending is not None and code in self.driver_codes:
            f = self._pending
            self._pending = None
            self._fire(f, code, line)
        if self.at_faults:
            f = self.at_faults.pop(n, None)
            if f is not None:
                self._fire(f, code, line)
        if self.loc_faults:
            key = (fn[len(self.pkg):], code.co_qualname, line)
            ent = self.loc_faults.get(key)
            if ent is not None:
                ent[1] += 1
                if ent[1] == ent[0]:
                    del self.loc_faults[key]
                    self._fire(ent[2], code, line)
        return None

    def _on_start(self, code, offset):
        fn = code.co_filename
        if not fn.startswith(self.pkg):
            return MON.DISABLE
        self.n_start += 1
        s = self.seam
        if s is not None and s.out_open > 0 and code is not s.out_owner:
            q = fn[len(self.pkg):] + ":" + code.co_qualname
            self.foreign_in_window[q] = self.foreign_in_window.get(q, 0) + 1
            if self.foreign_fault is not None:
                f = self.foreign_fault
                self.foreign_fault = None
                self._fire(f, code, code.co_firstlineno)
        if self.start_faults:
            f = self.start_faults.pop(self.n_start, None)
            if f is not None:
                self._fire(f, code, code.co_firstlineno)
        if self.driver_codes:
            fr = sys._getframe(1)
            back = fr.f_back
            if back is not None and back.f_code in self.driver_codes:
                name = fn[len(self.pkg):] + ":" + code.co_qualname
                c = self.stage_counts.get(name, 0) + 1
                self.stage_counts[name] = c
                if c == 1:
                    self.stage_order.append(name)
                self._stage_open[name] = self.n_start
                ent = self.stage_faults.get((name, "entry"))
                if ent is not None and ent[0] == c:
                    del self.stage_faults[(name, "entry")]
                    self._fire(ent[1], code, code.co_firstlineno)
        return None

    def _on_return(self, code, offset, retval):
        fn = code.co_filename
        if not fn.startswith(self.pkg):
            return MON.DISABLE
        if self.driver_codes:
            fr = sys._getframe(1)
            back = fr.f_back
            if back is not None and back.f_code in self.driver_codes:
                name = fn[len(self.pkg):] + ":" + code.co_qualname
                st = self._stage_open.pop(name, None)
                if st is not None:
                    self.stage_spans.append([name, st, self.n_start])
                ent = self.stage_faults.get((name, "return"))
                if ent is not None and ent[0] == self.stage_counts.get(name, 0):
                    del self.stage_faults[(name, "return")]
                    # delivered at the next line executed by the driver frame
                    self._pending = ent[1]
        return None

    # ------------------------------------------------------------------ reporting
    def profile(self):
        lines = sorted(([k[0], k[1], k[2], self.line_first[k], self.line_count[k]]
                        for k in self.line_first), key=lambda t: t[3])
        return {"n_line": self.n_line, "n_start": self.n_start,
                "stages": [[n, self.stage_counts[n]] for n in self.stage_order],
                "lines": lines, "foreign_in_window": dict(self.foreign_in_window),
                "stage_spans": self.stage_spans,
                "window_line_range": self.window_line_range}

"""Deterministic simulation + fault injection engine for pdb2pqr (see /verif/DESIGN.md)."""

"""Seams the simulator owns: file I/O (builtins.open / io.open) and the RCSB endpoint.

Installed from outside the repository for the duration of one simulated run.  Only
paths under the watched roots are wrapped; everything else passes straight through.
The wrapper records (open, read#, write#, close) events, can fail them on schedule and
remembers which code object opened a file for writing (used to *attribute* the write
window, never to decide a verdict).
"""

from __future__ import annotations

import builtins
import errno
import io
import os
import sys

_REAL_OPEN = builtins.open


class FileProxy:
    """Transparent proxy around a real file object with scheduled faults."""

    def __init__(self, seam, real, path, mode, rec):
        self._seam = seam
        self._real = real
        self._path = path
        self._mode = mode
        self._rec = rec  # event record shared with the seam's log

    # -- helpers
    def _op(self, kind):
        rec = self._rec
        rec[kind] = rec.get(kind, 0) + 1
        self._seam.io_ops += 1
        plan = self._seam.plan_for(self._path, kind, rec[kind], rec["open_index"])
        if plan is not None:
            self._seam.fired.append({"kind": "io:" + kind + "-fail", "path": rec["label"],
                                     "n": rec[kind], "errno": plan})
            raise OSError(plan, os.strerror(plan), self._path)

    # -- reading
    def read(self, *a):
        self._op("read")
        return self._real.read(*a)

    def readline(self, *a):
        self._op("read")
        return self._real.readline(*a)

    def readlines(self, *a):
        self._op("read")
        return self._real.readlines(*a)

    def __iter__(self):
        return self

    def __next__(self):
        self._op("read")
        return next(self._real)

    # -- writing
    def write(self, data):
        self._op("write")
        return self._real.write(data)

    def writelines(self, lines):
        for line in lines:
            self.write(line)

    def flush(self):
        return self._real.flush()

    # -- lifecycle
    def close(self):
        if not self._real.closed:
            self._rec["closed"] = True
            self._seam.on_close(self._rec)
            self._real.close()
            plan = self._seam.plan_for(self._path, "close", 1, self._rec["open_index"])
            if plan is not None:
                self._seam.fired.append({"kind": "io:close-fail", "path": self._rec["label"],
                                         "errno": plan})
                raise OSError(plan, os.strerror(plan), self._path)

    def __enter__(self):
        return self

    def __exit__(self, *exc):
        self.close()
        return False

    def __getattr__(self, name):
        return getattr(self._real, name)

    def __del__(self):
        try:
            if not self._real.closed:
                self._real.close()
        except Exception:  # noqa: BLE001
            pass


class IOSeam:
    """plan: list of {"path_label":..., "op": "open"|"read"|"write"|"close",
                      "n": k (k-th op on that file), "open_index": i | None, "errno": E}
    redirect: {real_path: substitute_path}  (content faults on files we may not edit)
    """

    def __init__(self, watch_roots, labels=None, plan=None, redirect=None, out_path=None,
                 repo_pkg_dir=None):
        self.watch_roots = [os.path.realpath(r) + os.sep for r in watch_roots]
        self.labels = labels or {}  # realpath -> stable label (scratch paths differ per world)
        self.plan = list(plan or [])
        self.redirect = {os.path.realpath(k): v for k, v in (redirect or {}).items()}
        self.out_path = os.path.realpath(out_path) if out_path else None
        self.repo_pkg_dir = repo_pkg_dir
        self.log = []  # one rec per open of a watched path
        self.fired = []
        self.io_ops = 0
        self.open_counts = {}
        self.out_open = 0  # number of currently open write handles on the output path
        self.out_owner = None  # code object that (first) opened the output for writing
        self.out_events = []  # ("open"|"close", global sequence number supplied by monitor)
        self.seq_source = None  # callable returning the monitor's event counter
        self._installed = False

    def label(self, rp):
        if rp in self.labels:
            return self.labels[rp]
        for root in self.watch_roots:
            if rp.startswith(root):
                return os.path.basename(os.path.dirname(root)) + "/" + rp[len(root):]
        return rp

    def watched(self, rp):
        return any(rp.startswith(r) for r in self.watch_roots) or rp in self.labels

    def plan_for(self, path, op, n, open_index):
        lab = self.label(path)
        for p in self.plan:
            if p["op"] == op and p["path_label"] == lab and p.get("n", 1) == n and (
                    p.get("open_index") in (None, open_index)):
                return p["errno"]
        return None

    def on_close(self, rec):
        if rec.get("is_out_write"):
            self.out_open -= 1
            self.out_events.append(("close", self.seq_source() if self.seq_source else None))

    def _open(self, file, mode="r", *a, **kw):
        if isinstance(file, int):
            return _REAL_OPEN(file, mode, *a, **kw)
        try:
            rp = os.path.realpath(os.fspath(file))
        except TypeError:
            return _REAL_OPEN(file, mode, *a, **kw)
        if not self.watched(rp):
            return _REAL_OPEN(file, mode, *a, **kw)
        lab = self.label(rp)
        self.open_counts[lab] = self.open_counts.get(lab, 0) + 1
        oi = self.open_counts[lab]
        writing = any(c in mode for c in "wax+")
        rec = {"label": lab, "mode": mode, "open_index": oi, "closed": False}
        self.log.append(rec)
        self.io_ops += 1
        err = self.plan_for(rp, "open", 1, oi)
        if err is not None:
            self.fired.append({"kind": "io:open-fail", "path": lab, "errno": err})
            raise OSError(err, os.strerror(err), os.fspath(file))
        target = self.redirect.get(rp, file)
        real = _REAL_OPEN(target, mode, *a, **kw)
        if writing and self.out_path is not None and rp == self.out_path:
            rec["is_out_write"] = True
            self.out_open += 1
            self.out_events.append(("open", self.seq_source() if self.seq_source else None))
            if self.out_owner is None:
                f = sys._getframe(1)
                # innermost frame that belongs to the repository
                while f is not None and not (
                        self.repo_pkg_dir and f.f_code.co_filename.startswith(self.repo_pkg_dir)):
                    f = f.f_back
                self.out_owner = f.f_code if f is not None else None
        return FileProxy(self, real, rp, mode, rec)

    def install(self):
        seam = self

        def sim_open(file, mode="r", *a, **kw):
            return seam._open(file, mode, *a, **kw)

        sim_open.__wrapped__ = _REAL_OPEN
        builtins.open = sim_open
        io.open = sim_open
        # an output that is written elsewhere and moved into place is "closed" at the move
        self._real_replace, self._real_rename = os.replace, os.rename

        def _moved(dst):
            try:
                if seam.out_path is not None and os.path.realpath(os.fspath(dst)) == seam.out_path:
                    seam.out_events.append(("close", seam.seq_source() if seam.seq_source else None))
            except TypeError:
                pass

        def sim_replace(src, dst, *a, **kw):
            r = seam._real_replace(src, dst, *a, **kw)
            _moved(dst)
            return r

        def sim_rename(src, dst, *a, **kw):
            r = seam._real_rename(src, dst, *a, **kw)
            _moved(dst)
            return r

        os.replace = sim_replace
        os.rename = sim_rename
        self._installed = True

    def uninstall(self):
        if self._installed:
            builtins.open = _REAL_OPEN
            io.open = _REAL_OPEN
            os.replace, os.rename = self._real_replace, self._real_rename
            self._installed = False

    def unclosed(self):
        return [r["label"] for r in self.log if not r["closed"]]


# --------------------------------------------------------------------------- network
class FakeResponse:
    def __init__(self, status, body):
        self.status_code = status
        self._body = body

    @property
    def text(self):
        if isinstance(self._body, bytes):
            return self._body.decode("utf-8", errors="replace")
        return self._body

    @property
    def content(self):
        return self._body if isinstance(self._body, bytes) else self._body.encode()


class NetSeam:
    """In-process stand-in for files.rcsb.org: scripted answer per request."""

    def __init__(self, script, body):
        """script: list of response specs consumed one per request (last one repeats):
             {"kind": "ok"} | {"kind": "status", "code": 404[, "fault": {...}]} |
             {"kind": "exc", "type": "ConnectionError"|"Timeout"|"ChunkedEncodingError"} |
             {"kind": "body", "fault": {...corpus.content_fault spec...}}"""
        self.script = list(script or [{"kind": "ok"}])
        self.body = body
        self.requests = []
        self.fired = []
        self._orig = None

    def _get(self, url, *a, **kw):
        import requests

        from sim import corpus

        i = min(len(self.requests), len(self.script) - 1)
        spec = self.script[i]
        self.requests.append(url)
        k = spec["kind"]
        if k == "ok":
            return FakeResponse(200, self.body)
        self.fired.append({"kind": "net:" + k + ":" + str(
            spec.get("code") or spec.get("type") or (spec.get("fault") or {}).get("kind"))})
        if k == "status":
            if spec.get("fault"):
                # a status other than 200 that comes WITH (part of) the entry: partial
                # content, non-authoritative copy, accepted-but-not-processed ...
                return FakeResponse(spec["code"], corpus.content_fault(self.body, spec["fault"]))
            return FakeResponse(spec["code"], corpus.HTML_PAGE)
        if k == "exc":
            raise getattr(requests.exceptions, spec["type"])(f"simulated {spec['type']} for {url}")
        if k == "body":
            return FakeResponse(200, corpus.content_fault(self.body, spec["fault"]))
        raise ValueError(k)

    def install(self):
        import pdb2pqr.io as pio

        self._pio = pio
        self._orig = pio.requests.get
        pio.requests.get = self._get

    def uninstall(self):
        if self._orig is not None:
            self._pio.requests.get = self._orig
            self._orig = None

"""Simulated wall clock.

Installed in the interpreter server *before* the repository is imported, so that even
`from datetime import datetime` / `from time import time` inside the code under test
bind the simulated versions.  The clock never reads the real time: it returns the
world's simulated epoch plus one millisecond per reading.  `time.monotonic` and
`time.perf_counter` are left alone (the harness uses them for its own wall limits, and
no property speaks about durations)."""

from __future__ import annotations

import datetime as _dt
import time as _time

_REAL = {"time": _time.time, "time_ns": _time.time_ns, "localtime": _time.localtime,
         "gmtime": _time.gmtime, "ctime": _time.ctime, "asctime": _time.asctime,
         "strftime": _time.strftime, "datetime": _dt.datetime, "date": _dt.date}

STATE = {"epoch": 946_684_800.0, "reads": 0, "installed": False}  # 2000-01-01T00:00:00Z


def now():
    STATE["reads"] += 1
    return STATE["epoch"] + STATE["reads"] * 0.001


def set_epoch(epoch):
    STATE["epoch"] = float(epoch)
    STATE["reads"] = 0


def install():
    if STATE["installed"]:
        return
    STATE["installed"] = True

    def time():
        return now()

    def time_ns():
        return int(now() * 1e9)

    def localtime(secs=None):
        return _REAL["localtime"](now() if secs is None else secs)

    def gmtime(secs=None):
        return _REAL["gmtime"](now() if secs is None else secs)

    def ctime(secs=None):
        return _REAL["ctime"](now() if secs is None else secs)

    def asctime(t=None):
        return _REAL["asctime"](localtime() if t is None else t)

    def strftime(fmt, t=None):
        return _REAL["strftime"](fmt, localtime() if t is None else t)

    _time.time = time
    _time.time_ns = time_ns
    _time.localtime = localtime
    _time.gmtime = gmtime
    _time.ctime = ctime
    _time.asctime = asctime
    _time.strftime = strftime

    class SimDateTime(_REAL["datetime"]):
        @classmethod
        def now(cls, tz=None):
            return cls.fromtimestamp(now(), tz)

        @classmethod
        def utcnow(cls):
            return cls.fromtimestamp(now(), _dt.timezone.utc).replace(tzinfo=None)

        @classmethod
        def today(cls):
            return cls.fromtimestamp(now())

    class SimDate(_REAL["date"]):
        @classmethod
        def today(cls):
            return cls.fromtimestamp(now())

    SimDateTime.__name__ = "datetime"
    SimDateTime.__qualname__ = "datetime"
    SimDate.__name__ = "date"
    SimDate.__qualname__ = "date"
    _dt.datetime = SimDateTime
    _dt.date = SimDate

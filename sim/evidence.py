"""Evidence, replay files and the known-findings list."""

from __future__ import annotations

import json
import os

VERIF_ROOT = os.path.dirname(os.path.dirname(os.path.abspath(__file__)))
# the self-tests point these elsewhere so that they never overwrite real evidence
EVIDENCE_DIR = os.environ.get("VERIF_EVIDENCE_DIR") or os.path.join(VERIF_ROOT, "evidence")
REPLAY_DIR = os.environ.get("VERIF_REPLAY_DIR") or os.path.join(VERIF_ROOT, "replays")
KNOWN_FILE = os.path.join(VERIF_ROOT, "known_findings.json")


def write_evidence(property_id, tier, seed, level, coverage, assumptions, wall_s,
                   violations, extra=None):
    os.makedirs(EVIDENCE_DIR, exist_ok=True)
    doc = {
        "property_id": property_id,
        "tier": tier,
        "seed": int(seed),
        "level": level,
        "coverage": coverage,
        "assumptions": assumptions,
        "wall_s": round(float(wall_s), 2),
        "violations": int(violations),
    }
    if extra:
        doc.update(extra)
    path = os.path.join(EVIDENCE_DIR, f"{property_id}.json")
    tmp = path + ".tmp"
    with open(tmp, "w") as fh:
        json.dump(doc, fh, indent=1, sort_keys=True, default=str)
        fh.write("\n")
    os.replace(tmp, path)
    return path


def write_replay(property_id, seed, doc, suffix=""):
    os.makedirs(REPLAY_DIR, exist_ok=True)
    path = os.path.join(REPLAY_DIR, f"{property_id}-{seed}{suffix}.json")
    doc = dict(doc)
    doc["property"] = property_id
    with open(path, "w") as fh:
        json.dump(doc, fh, indent=1, sort_keys=True, default=str)
        fh.write("\n")
    return path


def load_known(property_id):
    """Known findings are read-only at run time; the file is committed."""
    try:
        with open(KNOWN_FILE) as fh:
            doc = json.load(fh)
    except FileNotFoundError:
        return {}
    return {f["key"]: f for f in doc.get("findings", []) if f.get("property") == property_id}

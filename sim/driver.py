"""Driver side: start interpreter servers, feed them jobs, collect results.

The driver never imports pdb2pqr.  Job results are keyed by job id, so the order in
which servers answer cannot influence any verdict or any log that is digested.
"""

from __future__ import annotations

import json
import os
import queue
import shutil
import subprocess
import sys
import threading
import time

HERE = os.path.dirname(os.path.abspath(__file__))
VERIF_ROOT = os.path.dirname(HERE)
PYTHON = os.environ.get("VERIF_PYTHON", "/venv/bin/python")


class HarnessError(Exception):
    """Anything that is the machinery's fault; exit code 2, never a VIOLATION."""


class Server:
    def __init__(self, name, env_extra, par, job_timeout, results_q):
        # A canonical, minimal environment: the interpreter copies the environment block
        # into objects at start-up, so its size and content shift every later heap address;
        # with address randomisation off, a world's memory layout is then a function of the
        # tree under test, the server's declared variant and the job alone -- the same in the
        # check run and in `./verif replay`.
        env = {
            "PATH": "/usr/local/sbin:/usr/local/bin:/usr/sbin:/usr/bin:/sbin:/bin",
            "HOME": "/root", "LANG": "C.UTF-8",
            "VERIF_REPO": os.environ.get("VERIF_REPO", "/repo"),
            "VERIF_SERVER_QUIET": os.environ.get("VERIF_SERVER_QUIET", "1"),
        }
        env.update({k: str(v) for k, v in env_extra.items()})
        env["VERIF_SERVER_PAR"] = "%03d" % int(par)
        env["VERIF_JOB_TIMEOUT"] = "%07d" % int(job_timeout)
        env.setdefault("PYTHONHASHSEED", "0")
        env["PYTHONDONTWRITEBYTECODE"] = "1"
        self.name = name
        self.par = par
        self.outstanding = 0
        self.ready = threading.Event()
        self.info = None
        stderr = None if os.environ.get("VERIF_SERVER_QUIET", "1") == "0" else subprocess.DEVNULL
        # Memory layout is a source of nondeterminism the properties can depend on (sets and
        # dicts of identity-hashed objects iterate in address order).  Address-space
        # randomisation is therefore switched off for the worlds (setarch -R), so that a
        # world's addresses are a function of its environment and history only and a replay
        # sees the same layout; variation is injected deliberately instead (hash seed,
        # allocator, seeded junk allocation before reference runs, heap perturbation ops).
        cmd = [PYTHON, os.path.join(HERE, "server.py")]
        setarch = shutil.which("setarch")
        if setarch and os.environ.get("VERIF_ASLR", "off") == "off":
            try:
                probe = subprocess.run([setarch, os.uname().machine, "-R", "true"],
                                       capture_output=True, timeout=20)
                if probe.returncode == 0:
                    cmd = [setarch, os.uname().machine, "-R"] + cmd
            except (OSError, subprocess.SubprocessError):
                pass
        self.aslr_off = cmd[0] != PYTHON
        self.proc = subprocess.Popen(
            cmd,
            stdin=subprocess.PIPE, stdout=subprocess.PIPE, stderr=stderr,
            env=env, cwd=VERIF_ROOT,
        )
        self._q = results_q
        self._t = threading.Thread(target=self._reader, daemon=True)
        self._t.start()

    def _reader(self):
        for raw in self.proc.stdout:
            try:
                msg = json.loads(raw)
            except ValueError:
                self._q.put((self.name, {"id": None, "harness_error": "bad line " + repr(raw[:200])}))
                continue
            if msg.get("ready"):
                self.info = msg
                self.ready.set()
                continue
            self._q.put((self.name, msg))
        self.ready.set()
        self._q.put((self.name, None))  # server gone

    def submit(self, job):
        self.outstanding += 1
        self.proc.stdin.write((json.dumps(job, sort_keys=True) + "\n").encode())
        self.proc.stdin.flush()

    def close(self):
        try:
            self.proc.stdin.close()
        except OSError:
            pass

    def kill(self):
        try:
            self.proc.kill()
        except OSError:
            pass


class ServerPool:
    """A set of named servers; `run` streams jobs to them until done or deadline."""

    def __init__(self, specs, job_timeout=300):
        """specs: list of (name, env_extra dict, par)."""
        self.q = queue.Queue()
        self.servers = {}
        for name, env_extra, par in specs:
            self.servers[name] = Server(name, env_extra, par, job_timeout, self.q)
        for s in self.servers.values():
            if not s.ready.wait(120) or s.info is None:
                self.shutdown()
                raise HarnessError(f"server {s.name} failed to start")

    def run(self, jobs_by_server, deadline=None, on_result=None, stop_flag=None):
        """jobs_by_server: {name: iterable of jobs}.  Jobs are fed lazily so the
        deadline (time.monotonic() value) stops *starting* new jobs.  Returns
        {name: {job_id: result_message}} and the set of ids never started."""
        iters = {n: iter(j) for n, j in jobs_by_server.items()}
        exhausted = set()
        results = {n: {} for n in jobs_by_server}
        skipped = {n: [] for n in jobs_by_server}
        alive = set(jobs_by_server)

        def feed(name):
            s = self.servers[name]
            while name not in exhausted and s.outstanding < s.par + 2:
                if (deadline is not None and time.monotonic() > deadline) or (
                        stop_flag is not None and stop_flag()):
                    for j in iters[name]:
                        skipped[name].append(j["id"])
                    exhausted.add(name)
                    break
                try:
                    job = next(iters[name])
                except StopIteration:
                    exhausted.add(name)
                    break
                s.submit(job)

        for n in jobs_by_server:
            feed(n)
        while any(self.servers[n].outstanding for n in jobs_by_server) or (
                set(jobs_by_server) - exhausted):
            try:
                name, msg = self.q.get(timeout=1.0)
            except queue.Empty:
                for n in jobs_by_server:
                    feed(n)
                continue
            if msg is None:
                if name in alive and self.servers[name].outstanding:
                    raise HarnessError(f"server {name} exited with jobs outstanding")
                alive.discard(name)
                continue
            if name not in results:
                continue
            self.servers[name].outstanding -= 1
            results[name][msg.get("id")] = msg
            if on_result is not None:
                on_result(name, msg)
            feed(name)
        return results, skipped

    def shutdown(self):
        for s in self.servers.values():
            s.close()
        t0 = time.monotonic()
        for s in self.servers.values():
            try:
                s.proc.wait(timeout=max(0.1, 10 - (time.monotonic() - t0)))
            except subprocess.TimeoutExpired:
                s.kill()

    def __enter__(self):
        return self

    def __exit__(self, *exc):
        self.shutdown()
        return False


def run_simple(jobs, par=16, env_extra=None, job_timeout=300, deadline=None, name="w0",
               on_result=None):
    """Convenience: one server, all jobs.  Returns (results dict, skipped ids)."""
    with ServerPool([(name, env_extra or {}, par)], job_timeout=job_timeout) as pool:
        res, skipped = pool.run({name: jobs}, deadline=deadline, on_result=on_result)
    return res[name], skipped[name]


def die_harness(msg):
    print(f"HARNESS-ERROR {msg}")
    sys.stdout.flush()
    sys.exit(2)

"""Run a function in a forked child (a pristine copy of the current world) and collect
its JSON-serialisable result plus any notes it wrote before dying."""

from __future__ import annotations

import json
import os
import select
import signal
import sys
import time
import traceback


class ChildResult:
    def __init__(self, status, notes, timed_out):
        self.status = status  # raw wait status
        self.notes = notes  # list of decoded JSON objects, in order written
        self.timed_out = timed_out

    @property
    def exit_code(self):
        if os.WIFEXITED(self.status):
            return os.WEXITSTATUS(self.status)
        return None

    @property
    def signal(self):
        if os.WIFSIGNALED(self.status):
            return os.WTERMSIG(self.status)
        return None

    def final(self):
        for n in reversed(self.notes):
            if "final" in n:
                return n["final"]
        return None

    def error(self):
        for n in self.notes:
            if "harness_error" in n:
                return n["harness_error"]
        return None


def note(fd, obj):
    data = (json.dumps(obj, sort_keys=True, default=str) + "\n").encode()
    view = memoryview(data)
    while view:
        n = os.write(fd, view)
        view = view[n:]


def forked(fn, *args, timeout=120.0):
    """fn(note_fd, *args) runs in a child; its return value is sent as {"final": ...}.
    The child always ends with os._exit so no parent clean-up code runs twice."""
    rfd, wfd = os.pipe()
    sys.stdout.flush()
    sys.stderr.flush()
    pid = os.fork()
    if pid == 0:
        code = 0
        try:
            os.close(rfd)
            res = fn(wfd, *args)
            note(wfd, {"final": res})
        except BaseException:  # noqa: BLE001
            try:
                note(wfd, {"harness_error": traceback.format_exc()[-3000:]})
            except Exception:  # noqa: BLE001
                pass
            code = 70
        finally:
            os._exit(code)
    os.close(wfd)
    buf = b""
    t0 = time.monotonic()
    timed_out = False
    while True:
        left = timeout - (time.monotonic() - t0)
        if left <= 0:
            timed_out = True
            try:
                os.kill(pid, signal.SIGKILL)
            except OSError:
                pass
            break
        r, _, _ = select.select([rfd], [], [], min(left, 1.0))
        if r:
            chunk = os.read(rfd, 1 << 16)
            if not chunk:
                break
            buf += chunk
    _, status = os.waitpid(pid, 0)
    # drain whatever is left
    try:
        os.set_blocking(rfd, False)
        while True:
            chunk = os.read(rfd, 1 << 16)
            if not chunk:
                break
            buf += chunk
    except (BlockingIOError, OSError):
        pass
    os.close(rfd)
    notes = []
    for line in buf.split(b"\n"):
        if line.strip():
            try:
                notes.append(json.loads(line))
            except ValueError:
                notes.append({"harness_error": "unparsable note " + repr(line[:200])})
    return ChildResult(status, notes, timed_out)

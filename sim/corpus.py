"""Workload corpus: frozen inputs plus deterministic, seed-free transformations.

Everything here is a pure function of its arguments; the seeded generators in the
check modules decide the arguments.  A cfg (JSON) fully describes one pdb2pqr
invocation and can be materialised in any world:

  {"item": "1AJJ.pdb",                     corpus file (structure)
   "window": [first_residue_index, n] | null,
   "waters": k  | null,                    keep the k waters nearest to the window
   "rigid": {"rot": [ax,ay,az,deg], "shift": [dx,dy,dz]} | null,
   "damage": [[residue_index, "keep_backbone"|"drop_tail"|"drop_atom:<NAME>"], ...],
   "rename": [[residue_index, "ASH"], ...],
   "content": {"kind": "short"|"garble"|"html"|"utf8"|"empty"|"header"|"blankline", ...} | null,
   "input_name": "in.pdb",                 file name to use (suffix matters: .cif)
   "argv": ["--ff=AMBER", "--ligand={ligand}", ...],
   "files": {"ligand": "1QBS-ligand.mol2", "userff": "custom-ff.dat", ...}}
"""

from __future__ import annotations

import math
import os

CORPUS_DIR = os.path.join(os.path.dirname(os.path.dirname(os.path.abspath(__file__))), "corpus")

WATER_NAMES = ("HOH", "WAT")
BACKBONE = ("N", "CA", "C", "O", "OXT")

_cache = {}


def load(name):
    if name not in _cache:
        with open(os.path.join(CORPUS_DIR, name), encoding="utf-8") as fh:
            _cache[name] = fh.read()
    return _cache[name]


# --------------------------------------------------------------------------- PDB text
def _is_atom(line):
    return line.startswith("ATOM  ") or line.startswith("HETATM")


def first_model_lines(text):
    """Lines of the first MODEL only (all lines if there is no MODEL record)."""
    out = []
    for line in text.splitlines():
        if line.startswith("ENDMDL"):
            break
        out.append(line)
    return out


def residue_groups(lines):
    """Group coordinate records into residues, in file order.

    Returns list of dicts {key, resname, het, lines:[...]}."""
    groups = []
    cur = None
    for line in lines:
        if not _is_atom(line):
            continue
        key = (line[21], line[22:27], line[17:20])
        if cur is None or cur["key"] != key:
            cur = {"key": key, "resname": line[17:20].strip(),
                   "het": line.startswith("HETATM"), "lines": []}
            groups.append(cur)
        cur["lines"].append(line)
    return groups


def _xyz(line):
    return float(line[30:38]), float(line[38:46]), float(line[46:54])


def _set_xyz(line, x, y, z):
    line = line.ljust(54)
    return f"{line[:30]}{x:8.3f}{y:8.3f}{z:8.3f}{line[54:]}"


def polymer_groups(groups):
    return [g for g in groups if not g["het"] and g["resname"] not in WATER_NAMES]


def cut_window(text, window, waters=None, het=False):
    """Contiguous run of polymer residues (by index into the polymer-residue list of
    model 1), optionally with the k nearest waters; header records are dropped."""
    lines = first_model_lines(text)
    groups = residue_groups(lines)
    poly = polymer_groups(groups)
    start, n = window
    start = max(0, min(start, max(0, len(poly) - 1)))
    sel = poly[start:start + n]
    out = []
    for g in sel:
        out.extend(g["lines"])
    if waters:
        pts = [_xyz(l) for g in sel for l in g["lines"]]
        cand = []
        for g in groups:
            if g["resname"] in WATER_NAMES:
                ox = _xyz(g["lines"][0])
                d = min((ox[0] - p[0]) ** 2 + (ox[1] - p[1]) ** 2 + (ox[2] - p[2]) ** 2
                        for p in pts) if pts else 0.0
                cand.append((d, len(cand), g))
        cand.sort(key=lambda t: (t[0], t[1]))
        for _, _, g in cand[:waters]:
            out.extend(g["lines"])
    if het:
        for g in groups:
            if g["het"] and g["resname"] not in WATER_NAMES:
                out.extend(g["lines"])
    out.append("END")
    return "\n".join(out) + "\n"


def _rot_matrix(ax, ay, az, deg):
    n = math.sqrt(ax * ax + ay * ay + az * az) or 1.0
    ax, ay, az = ax / n, ay / n, az / n
    c, s = math.cos(math.radians(deg)), math.sin(math.radians(deg))
    t = 1 - c
    return [
        [t * ax * ax + c, t * ax * ay - s * az, t * ax * az + s * ay],
        [t * ax * ay + s * az, t * ay * ay + c, t * ay * az - s * ax],
        [t * ax * az - s * ay, t * ay * az + s * ax, t * az * az + c],
    ]


def rigid(text, rot=None, shift=None):
    """Rotate about the centroid, then translate; coordinates re-rounded to 3 decimals."""
    lines = text.splitlines()
    pts = [_xyz(l) for l in lines if _is_atom(l)]
    if not pts:
        return text
    cx = sum(p[0] for p in pts) / len(pts)
    cy = sum(p[1] for p in pts) / len(pts)
    cz = sum(p[2] for p in pts) / len(pts)
    m = _rot_matrix(*rot) if rot else [[1, 0, 0], [0, 1, 0], [0, 0, 1]]
    sx, sy, sz = (shift or (0.0, 0.0, 0.0))[:3]
    anchor = (shift is not None and len(shift) == 4 and shift[3] == "abs")
    out = []
    for l in lines:
        if _is_atom(l):
            x, y, z = _xyz(l)
            x, y, z = x - cx, y - cy, z - cz
            nx = m[0][0] * x + m[0][1] * y + m[0][2] * z
            ny = m[1][0] * x + m[1][1] * y + m[1][2] * z
            nz = m[2][0] * x + m[2][1] * y + m[2][2] * z
            if anchor:  # centroid is moved *to* the given point
                nx, ny, nz = nx + sx, ny + sy, nz + sz
            else:
                nx, ny, nz = nx + cx + sx, ny + cy + sy, nz + cz + sz
            if not all(-999.0 < v < 9999.0 for v in (nx, ny, nz)):
                return text  # would overflow the PDB columns; leave unchanged
            l = _set_xyz(l, nx, ny, nz)
        out.append(l)
    return "\n".join(out) + "\n"


def damage(text, specs):
    """Delete atoms so that the repair / rebuild / debump paths have work to do."""
    lines = text.splitlines()
    groups = residue_groups(lines)
    poly = polymer_groups(groups)
    drop = set()
    add_after = {}
    for idx, how in specs:
        if not poly:
            break
        g = poly[idx % len(poly)]
        names = [l[12:16].strip() for l in g["lines"]]
        if how == "keep_backbone":
            for l, nm in zip(g["lines"], names):
                if nm not in BACKBONE and nm != "CB":
                    drop.add(id(l))
        elif how == "drop_tail":
            heavy = [l for l, nm in zip(g["lines"], names) if nm not in BACKBONE]
            for l in heavy[len(heavy) // 2:]:
                drop.add(id(l))
        elif how.startswith("drop_atom:"):
            tgt = how.split(":", 1)[1]
            for l, nm in zip(g["lines"], names):
                if nm == tgt:
                    drop.add(id(l))
        elif how == "phospho":
            # atoms outside the residue's definition: a phosphate on the side-chain oxygen
            # of a SER / THR / TYR that keeps its standard name
            pos = {nm: _xyz(l) for l, nm in zip(g["lines"], names)}
            oname = next((n_ for n_ in ("OG", "OG1", "OH") if n_ in pos), None)
            prev = {"OG": "CB", "OG1": "CB", "OH": "CZ"}.get(oname)
            if oname and prev in pos:
                o, c = pos[oname], pos[prev]

                def unit(v):
                    n_ = math.sqrt(sum(x * x for x in v)) or 1.0
                    return [x / n_ for x in v]

                u = unit([o[i] - c[i] for i in range(3)])
                # two directions perpendicular to u
                a = unit([u[1], -u[0], 0.0]) if abs(u[2]) < 0.9 else unit([0.0, u[2], -u[1]])
                b = [u[1] * a[2] - u[2] * a[1], u[2] * a[0] - u[0] * a[2], u[0] * a[1] - u[1] * a[0]]
                pxyz = [o[i] + 1.6 * u[i] for i in range(3)]
                oline = next(l for l, nm in zip(g["lines"], names) if nm == oname)
                extra = [_set_xyz(oline[:12] + " P  " + oline[16:], *pxyz)]
                for nm_, d in (("O1P", [0.5 * u[i] + 0.87 * a[i] for i in range(3)]),
                               ("O2P", [0.5 * u[i] - 0.43 * a[i] + 0.75 * b[i] for i in range(3)]),
                               ("O3P", [0.5 * u[i] - 0.43 * a[i] - 0.75 * b[i] for i in range(3)])):
                    extra.append(_set_xyz(oline[:12] + " " + nm_ + oline[16:],
                                          *[pxyz[i] + 1.5 * d[i] for i in range(3)]))
                last = g["lines"][-1]
                add_after[id(last)] = (add_after.get(id(last), "") + "\n" if id(last) in add_after
                                       else "") + "\n".join(extra)
        elif how.startswith("only_atom:"):
            keep = how.split(":", 1)[1]
            if keep in names:
                for l, nm in zip(g["lines"], names):
                    if nm != keep:
                        drop.add(id(l))
        elif how.startswith("sg_near:"):
            # put this residue's SG next to the SG of another cysteine (three sulfurs in
            # bonding range: the disulfide partner choice becomes ambiguous)
            j = int(how.split(":", 1)[1])
            other = poly[j % len(poly)]
            osg = next((l for l in other["lines"] if l[12:16].strip() == "SG"), None)
            mine = next((l for l, nm in zip(g["lines"], names) if nm == "SG"), None)
            if osg is not None and mine is not None and osg is not mine:
                x, y, z = _xyz(osg)
                tgt = (x + 1.4, y + 1.2, z + 0.6)
                # if the other sulfur is part of a disulfide, sit at about 2 A from BOTH
                # sulfurs (apex of a triangle over the S-S bond)
                for g2 in poly:
                    for l2 in g2["lines"]:
                        if l2[12:16].strip() == "SG" and l2 is not osg and l2 is not mine:
                            px, py, pz = _xyz(l2)
                            d = math.sqrt((px - x) ** 2 + (py - y) ** 2 + (pz - z) ** 2)
                            if d < 2.5:
                                mx, my, mz = (x + px) / 2, (y + py) / 2, (z + pz) / 2
                                bx, by, bz = px - x, py - y, pz - z
                                # any vector not parallel to the bond, made perpendicular
                                ax, ay, az = (1.0, 0.0, 0.0) if abs(bx) < 0.9 * d else (0.0, 1.0, 0.0)
                                k = (ax * bx + ay * by + az * bz) / (d * d)
                                qx, qy, qz = ax - k * bx, ay - k * by, az - k * bz
                                qn = math.sqrt(qx * qx + qy * qy + qz * qz) or 1.0
                                tgt = (mx + 1.75 * qx / qn, my + 1.75 * qy / qn, mz + 1.75 * qz / qn)
                drop.add(id(mine))
                add_after[id(mine)] = _set_xyz(mine, *tgt)
        elif how == "ca_only":
            for l, nm in zip(g["lines"], names):
                if nm != "CA":
                    drop.add(id(l))
        elif how == "drop_backbone":
            for l, nm in zip(g["lines"], names):
                if nm in ("N", "CA", "C", "O"):
                    drop.add(id(l))
        elif how.startswith("coord:"):
            # overwrite the x coordinate field of every atom of the residue with a token
            tok = how.split(":", 1)[1]
            for l in g["lines"]:
                drop.add(id(l))
                add_after[id(l)] = l[:30] + tok.rjust(8)[:8] + l[38:]
        elif how == "collapse":
            # all atoms of the residue at one point
            x, y, z = _xyz(g["lines"][0])
            for l in g["lines"]:
                drop.add(id(l))
                add_after[id(l)] = _set_xyz(l, x, y, z)
        elif how == "coincide":
            # the first side-chain atom beyond CB sits exactly on CB (zero-length bond:
            # degenerate numerics -- 0/0 in angle and normalisation code)
            cb = next((l for l, nm in zip(g["lines"], names) if nm == "CB"), None)
            nxt = next((l for l, nm in zip(g["lines"], names)
                        if nm not in BACKBONE and nm != "CB"), None)
            if cb is not None and nxt is not None:
                drop.add(id(nxt))
                add_after[id(nxt)] = _set_xyz(nxt, *_xyz(cb))
        elif how == "altloc":
            # two alternate locations for the first side-chain atom (or CA)
            tgt = next((l for l, nm in zip(g["lines"], names) if nm not in BACKBONE), g["lines"][0])
            x, y, z = _xyz(tgt)
            a = tgt[:16] + "A" + tgt[17:]
            b = _set_xyz(tgt[:16] + "B" + tgt[17:], x + 0.3, y - 0.2, z + 0.1)
            drop.add(id(tgt))
            add_after[id(tgt)] = a + "\n" + b
        elif how == "icode":
            for l in g["lines"]:
                drop.add(id(l))
                add_after[id(l)] = l[:26] + "A" + l[27:]
        elif how == "add_oxt":
            # a carboxylate oxygen in the middle of a chain (pdb2pqr then splits the chain)
            pos = {nm: _xyz(l) for l, nm in zip(g["lines"], names)}
            if "OXT" not in pos and all(k in pos for k in ("C", "CA", "O")):
                c, ca, o = pos["C"], pos["CA"], pos["O"]

                def unit(v):
                    n = math.sqrt(sum(x * x for x in v)) or 1.0
                    return [x / n for x in v]

                vca = unit([ca[i] - c[i] for i in range(3)])
                vo = unit([o[i] - c[i] for i in range(3)])
                d = unit([-(vca[i] + vo[i]) for i in range(3)])
                oline = [l for l, nm in zip(g["lines"], names) if nm == "O"][0]
                new = _set_xyz(oline[:12] + " OXT" + oline[16:],
                               c[0] + 1.25 * d[0], c[1] + 1.25 * d[1], c[2] + 1.25 * d[2])
                add_after[id(oline)] = new
        elif how == "drop_hydrogens":
            for l, nm in zip(g["lines"], names):
                if nm.startswith("H") or (len(nm) > 1 and nm[0].isdigit() and nm[1] == "H"):
                    drop.add(id(l))
    out = []
    for l in lines:
        if id(l) not in drop:
            out.append(l)
        if id(l) in add_after:
            out.append(add_after[id(l)])
    return "\n".join(out) + "\n"


def rename(text, specs):
    lines = text.splitlines()
    groups = residue_groups(lines)
    poly = polymer_groups(groups)
    ren = {}
    for idx, newname in specs:
        if poly:
            for l in poly[idx % len(poly)]["lines"]:
                ren[id(l)] = newname
    out = []
    for l in lines:
        if id(l) in ren:
            l = l[:17] + ren[id(l)].rjust(3)[:3] + l[20:]
        out.append(l)
    return "\n".join(out) + "\n"


def ligand_hetatm(mol2_text, resname="LIG", chain="L", resseq=900, drop_h=False):
    """HETATM records for the atoms of a MOL2 file (names and coordinates as given),
    so that the ligand path (--ligand) has hetero atoms to parameterise."""
    out = []
    in_atoms = False
    n = 0
    for line in mol2_text.splitlines():
        if line.startswith("@<TRIPOS>"):
            in_atoms = line.strip() == "@<TRIPOS>ATOM"
            continue
        if not in_atoms or not line.strip():
            continue
        w = line.split()
        if len(w) < 6:
            continue
        if drop_h and (w[5].upper().startswith("H") or w[1].upper().startswith("H")):
            continue  # the usual case for real PDB entries: ligand without hydrogens
        n += 1
        name = w[1][:4]
        nm = name if len(name) == 4 else " " + name.ljust(3)
        x, y, z = float(w[2]), float(w[3]), float(w[4])
        out.append(f"HETATM{9000 + n:5d} {nm} {resname:>3s} {chain}{resseq:4d}    "
                   f"{x:8.3f}{y:8.3f}{z:8.3f}  1.00  0.00")
    return out


def add_ligand(text, mol2_name, resname="LIG", drop_h=False):
    lines = [l for l in text.splitlines() if l.strip() != "END"]
    lines += ligand_hetatm(load(mol2_name), resname=resname, drop_h=drop_h)
    lines.append("END")
    return "\n".join(lines) + "\n"


def split_chains(text, ids):
    """Relabel the polymer residues as len(ids) consecutive chains (TER in between);
    waters and other HETATM groups keep their place at the end and get the last id."""
    lines = text.splitlines()
    groups = residue_groups(lines)
    poly = polymer_groups(groups)
    if len(poly) < 2 * len(ids):
        return text
    per = len(poly) // len(ids)
    owner = {}
    for i, g in enumerate(poly):
        cid = ids[min(i // per, len(ids) - 1)]
        for l in g["lines"]:
            owner[id(l)] = cid
    out = []
    prev = None
    for l in lines:
        if _is_atom(l):
            cid = owner.get(id(l))
            if cid is None:
                cid = ids[-1] if l[21] != " " else " "
            if id(l) in owner and prev is not None and cid != prev:
                out.append("TER")
            if id(l) in owner:
                prev = cid
            l = l[:21] + cid + l[22:]
        out.append(l)
    return "\n".join(out) + "\n"


HTML_PAGE = (
    "<!DOCTYPE html>\n<html><head><title>503 Service Unavailable</title></head>\n"
    "<body><h1>Service Unavailable</h1>\n<p>The server is temporarily unable to service "
    "your request.</p>\n</body></html>\n"
)


def content_fault(data: bytes, spec) -> bytes:
    """What a faulty disk / download hands back instead of the real bytes."""
    kind = spec["kind"]
    if kind == "empty":
        return b""
    if kind == "short":
        return data[: max(0, min(len(data), int(spec["at"])))]
    if kind == "cutlines":
        # a transfer that stopped on a line boundary (still parseable)
        lines = data.split(b"\n")
        keep = max(1, int(len(lines) * float(spec.get("frac", 0.5))))
        return b"\n".join(lines[:keep]) + b"\n"
    if kind == "garble":
        at = int(spec["at"]) % max(1, len(data))
        b = bytearray(data)
        if b:
            b[at] = (b[at] ^ int(spec.get("xor", 0x20))) & 0xFF
        return bytes(b)
    if kind == "html":
        return HTML_PAGE.encode()
    if kind == "utf8":
        at = int(spec.get("at", 0)) % max(1, len(data))
        return data[:at] + b"\xff\xfe\xfa" + data[at:]
    if kind == "header":
        return b"".join(l + b"\n" for l in data.split(b"\n")
                        if l[:6] not in (b"ATOM  ", b"HETATM") and l.strip())
    if kind == "blankline":
        lines = data.split(b"\n")
        at = int(spec["at"]) % max(1, len(lines))
        return b"\n".join(lines[:at] + [b""] + lines[at:])
    if kind == "replace":
        return data.replace(spec["old"].encode(), spec["new"].encode(), 1)
    if kind == "field":
        # overwrite fixed columns of the n-th coordinate record (a garbled numeric field)
        lines = data.split(b"\n")
        idx = [i for i, l in enumerate(lines) if l[:6] in (b"ATOM  ", b"HETATM")]
        if idx:
            i = idx[int(spec["record"]) % len(idx)]
            a, b = spec["cols"]
            l = lines[i].ljust(b)
            lines[i] = l[:a] + spec["text"].encode().ljust(b - a)[: b - a] + l[b:]
        return b"\n".join(lines)
    if kind == "binary":
        return bytes((i * 37 + 11) & 0xFF for i in range(min(len(data), 4096)))
    raise ValueError(kind)


BAD_RECORDS = [
    # records of non-coordinate types that are not column-aligned / not numeric where the
    # parser expects numbers: pdb2pqr reports them as non-standard and carries on
    "MODEL 1", "HEADER", "CRYST1 oops", "SEQRES   x A   14  ALA", "HELIX bad record",
    "SSBOND   1 CYS A    x    CYS A    y", "CONECT    a    b", "SITE     1 AC1  x",
    "REMARK 465 free text is fine", "SCALE1      not numbers", "MASTER      x y z",
]


def add_bad_records(text, which=None):
    lines = text.splitlines()
    recs = BAD_RECORDS if which is None else [BAD_RECORDS[i % len(BAD_RECORDS)] for i in which]
    first_atom = next((i for i, l in enumerate(lines) if _is_atom(l)), 0)
    lines[first_atom:first_atom] = recs[: len(recs) // 2 + 1]
    end = next((i for i in range(len(lines) - 1, -1, -1) if _is_atom(lines[i])), len(lines) - 1)
    lines[end + 1:end + 1] = recs[len(recs) // 2 + 1:]
    return "\n".join(lines) + "\n"


def dimer_same_id(text, shift=(25.0, 0.0, 0.0)):
    """The polymer followed by a TER and a translated copy of itself with the SAME chain id
    and the same residue numbers (numbering starts over after the TER)."""
    lines = [l for l in text.splitlines() if l.strip() not in ("END",)]
    poly = [l for l in lines if l.startswith("ATOM  ")]
    rest = [l for l in lines if _is_atom(l) and not l.startswith("ATOM  ")]
    out = list(poly) + ["TER"]
    for l in poly:
        x, y, z = _xyz(l)
        out.append(_set_xyz(l, x + shift[0], y + shift[1], z + shift[2]))
    out += ["TER"] + rest + ["END"]
    return "\n".join(out) + "\n"


def sym_waters(text, n):
    """Append n groups of three waters in exactly symmetric positions next to the molecule:
    oxygens at A+(a,0,0), A+(0,a,0), A+(0,0,a) with integral A and a = 2, so all three
    O-O distances are bit-identical (sqrt(8)).  Exact ties are where an ordering that is
    not a function of the input (object addresses, hash order) decides the result; real
    structures get them from crystallographic symmetry."""
    lines = [l for l in text.splitlines() if l.strip() != "END"]
    atoms = [l for l in lines if _is_atom(l)]
    if not atoms:
        return text
    xs, ys, zs = zip(*(_xyz(l) for l in atoms))
    ax, ay, az = float(int(max(xs)) + 6), float(int(sum(ys) / len(ys))), float(int(min(zs)))
    last = atoms[-1]
    chain = last[21]
    try:
        resno = max(int(l[22:26]) for l in atoms) + 10
        serial = max(int(l[6:11]) for l in atoms) + 10
    except ValueError:
        resno, serial = 900, 9000
    out = []
    for g in range(int(n)):
        base = (ax + 7.0 * (g % 4), ay + 7.0 * ((g // 4) % 4), az + 7.0 * (g // 16))
        for d in ((2.0, 0.0, 0.0), (0.0, 2.0, 0.0), (0.0, 0.0, 2.0)):
            x, y, z = base[0] + d[0], base[1] + d[1], base[2] + d[2]
            out.append(f"HETATM{serial % 100000:5d}  O   HOH {chain}{resno % 10000:4d}    "
                       f"{x:8.3f}{y:8.3f}{z:8.3f}  1.00 20.00           O")
            serial += 1
            resno += 1
    end = max(i for i, l in enumerate(lines) if _is_atom(l)) + 1
    return "\n".join(lines[:end] + out + lines[end:] + ["END"]) + "\n"


def solvate(text, specs):
    """Waters on a 3.1 A grid around chosen polymer residues ([[residue_index, n], ...]):
    up to n grid points per residue that keep 2.6 - 4.5 A from every atom.  Puts hydrogen-
    bond partners (and with them neighbour queries) around a residue of interest, e.g. a
    chain terminus, where the bundled structures have none."""
    lines = [l for l in text.splitlines() if l.strip() != "END"]
    atoms = [i for i, l in enumerate(lines) if _is_atom(l)]
    groups = polymer_groups(residue_groups(lines))
    if not atoms or not groups:
        return text
    pts = [_xyz(lines[i]) for i in atoms]
    try:
        resno = max(int(lines[i][22:26]) for i in atoms) + 20
        serial = max(int(lines[i][6:11]) for i in atoms) + 20
    except ValueError:
        resno, serial = 800, 8000
    chain = lines[atoms[-1]][21]
    new = []
    for idx, n in specs:
        g = groups[int(idx) % len(groups)]
        gp = [_xyz(l) for l in g["lines"]]
        lo = [math.floor(min(p[k] for p in gp)) - 4.0 for k in range(3)]
        hi = [max(p[k] for p in gp) + 4.0 for k in range(3)]
        cand = []
        x = lo[0]
        while x <= hi[0]:
            y = lo[1]
            while y <= hi[1]:
                z = lo[2]
                while z <= hi[2]:
                    if min(math.dist((x, y, z), p) for p in pts) >= 2.6 and \
                            min(math.dist((x, y, z), p) for p in gp) <= 4.5:
                        cand.append((x, y, z))
                    z += 3.1
                y += 3.1
            x += 3.1
        step = max(1, len(cand) // max(1, int(n)))
        for x, y, z in cand[::step][: int(n)]:
            new.append(f"HETATM{serial % 100000:5d}  O   HOH {chain}{resno % 10000:4d}    "
                       f"{x:8.3f}{y:8.3f}{z:8.3f}  1.00 20.00           O")
            pts.append((x, y, z))
            serial += 1
            resno += 1
    end = atoms[-1] + 1
    return "\n".join(lines[:end] + new + lines[end:] + ["END"]) + "\n"


def dup_water(text):
    """One water listed twice (same coordinates, next residue number): a duplicate record
    as left behind by merging files; two atoms at distance zero."""
    lines = [l for l in text.splitlines() if l.strip() != "END"]
    atoms = [i for i, l in enumerate(lines) if _is_atom(l)]
    if not atoms:
        return text
    wat = next((i for i in atoms if lines[i][17:20].strip() in WATER_NAMES
                and lines[i][12:16].strip() == "O"), None)
    try:
        resno = max(int(lines[i][22:26]) for i in atoms) + 3
        serial = max(int(lines[i][6:11]) for i in atoms) + 3
    except ValueError:
        resno, serial = 950, 9500
    last = lines[atoms[-1]]
    if wat is None:
        xs, ys, zs = zip(*(_xyz(lines[i]) for i in atoms))
        src = (f"HETATM{serial % 100000:5d}  O   HOH {last[21]}{resno % 10000:4d}    "
               f"{max(xs) + 4.0:8.3f}{ys[-1]:8.3f}{zs[-1]:8.3f}  1.00 20.00           O")
        new = [src]
        serial += 1
        resno += 1
    else:
        src = lines[wat]
        new = []
    new.append(f"{src[:6]}{serial % 100000:5d}{src[11:22]}{resno % 10000:4d}{src[26:]}")
    end = atoms[-1] + 1
    return "\n".join(lines[:end] + new + lines[end:] + ["END"]) + "\n"


def renumber(text, offset):
    """Shift all residue numbers (negative numbers, numbers crossing 9999 -> column overflow
    is avoided by clamping)."""
    out = []
    for l in text.splitlines():
        if _is_atom(l):
            try:
                n = int(l[22:26]) + int(offset)
            except ValueError:
                out.append(l)
                continue
            n = max(-999, min(9999, n))
            l = l[:22] + f"{n:4d}" + l[26:]
        out.append(l)
    return "\n".join(out) + "\n"


def rename_waters(text, name):
    out = []
    for l in text.splitlines():
        if _is_atom(l) and l[17:20].strip() in WATER_NAMES:
            l = l[:17] + name.rjust(3)[:3] + l[20:]
        out.append(l)
    return "\n".join(out) + "\n"


def column_noise(text, mode):
    """Columns that carry no structural information for pdb2pqr: occupancy, B factor,
    segment id, element, charge."""
    out = []
    for l in text.splitlines():
        if _is_atom(l):
            l = l.ljust(80)
            if mode == "blank":
                l = l[:54] + " " * 26
            elif mode == "zero_occ":
                l = l[:54] + "  0.00" + l[60:]
            elif mode == "segid":
                l = l[:72] + "SEG1" + l[76:]
            elif mode == "noelement":
                l = l[:76] + "    "
            l = l.rstrip()
        out.append(l)
    return "\n".join(out) + "\n"


def rename_water_oxygen(text, newname="OX", which=0):
    """The which-th water loses its recognisable oxygen (its O atom is renamed)."""
    lines = text.splitlines()
    n = -1
    for i, l in enumerate(lines):
        if _is_atom(l) and l[17:20].strip() in WATER_NAMES and l[12:16].strip() == "O":
            n += 1
            if n == which:
                lines[i] = l[:12] + (" " + newname.ljust(3))[:4] + l[16:]
                break
    return "\n".join(lines) + "\n"


def many_chains(text, n, spacing=12.0):
    """n copies of the structure's polymer atoms, each shifted along x, without chain ids,
    separated by TER records (an assembly with many unlabelled chains)."""
    atoms = [l for l in text.splitlines() if l.startswith("ATOM  ")]
    out = []
    for k in range(n):
        for l in atoms:
            x, y, z = _xyz(l)
            l2 = _set_xyz(l[:21] + " " + l[22:], x + spacing * (k % 40), y + spacing * (k // 40), z)
            out.append(l2)
        out.append("TER")
    out.append("END")
    return "\n".join(out) + "\n"


def structure_text(cfg):
    """The structure bytes for a cfg (before any content fault)."""
    text = load(cfg["item"])
    if cfg["item"].endswith(".cif") or cfg["item"].endswith(".pqr"):
        return text
    if cfg.get("window"):
        text = cut_window(text, cfg["window"], cfg.get("waters"), cfg.get("het", False))
    if cfg.get("damage"):
        text = damage(text, cfg["damage"])
    if cfg.get("rename"):
        text = rename(text, cfg["rename"])
    if cfg.get("chains"):
        text = split_chains(text, cfg["chains"])
    if cfg.get("dimer_same_id"):
        text = dimer_same_id(text)
    if cfg.get("solvate"):
        text = solvate(text, cfg["solvate"])
    if cfg.get("sym_waters"):
        text = sym_waters(text, cfg["sym_waters"])
    if cfg.get("dup_water"):
        text = dup_water(text)
    if cfg.get("renumber"):
        text = renumber(text, cfg["renumber"])
    if cfg.get("water_name"):
        text = rename_waters(text, cfg["water_name"])
    if cfg.get("columns"):
        text = column_noise(text, cfg["columns"])
    if cfg.get("water_no_oxygen") is not None:
        text = rename_water_oxygen(text, which=int(cfg["water_no_oxygen"]))
    if cfg.get("many_chains"):
        text = many_chains(text, int(cfg["many_chains"]))
    if cfg.get("bad_records") is not None:
        text = add_bad_records(text, None if cfg["bad_records"] is True else cfg["bad_records"])
    if cfg.get("lig_het"):
        text = add_ligand(text, cfg["lig_het"], cfg.get("lig_resname", "LIG"),
                          cfg.get("lig_drop_h", False))
    if cfg.get("rigid"):
        text = rigid(text, cfg["rigid"].get("rot"), cfg["rigid"].get("shift"))
    return text


def materialise(cfg, indir, outdir, out_name="out.pqr"):
    """Write the input files of a cfg under indir; return (argv, paths dict)."""
    os.makedirs(indir, exist_ok=True)
    os.makedirs(outdir, exist_ok=True)
    paths = {"output": os.path.join(outdir, out_name),
             "pdbout": os.path.join(outdir, "out.pdb"),
             "apbsout": os.path.join(outdir, "out.in")}
    data = structure_text(cfg).encode()
    if cfg.get("content"):
        data = content_fault(data, cfg["content"])
    input_mode = cfg.get("input_mode", "file")
    in_name = cfg.get("input_name") or ("in.cif" if cfg["item"].endswith(".cif") else "in.pdb")
    if input_mode == "file":
        paths["input"] = os.path.join(indir, in_name)
        with open(paths["input"], "wb") as fh:
            fh.write(data)
    elif input_mode == "missing":
        paths["input"] = os.path.join(indir, in_name)  # not created, not a PDB id either
    elif input_mode == "dir":
        paths["input"] = os.path.join(indir, in_name)
        os.makedirs(paths["input"], exist_ok=True)
    elif input_mode == "pdbid":
        # input is not a file -> pdb2pqr asks the (fake) RCSB endpoint for <stem>.pdb
        paths["input"] = cfg.get("pdbid", "1ABC")
        paths["net_body"] = data
    for key, name in (cfg.get("files") or {}).items():
        if name is None:
            paths[key] = os.path.join(indir, "missing-" + key)
            continue
        if name == "<dir>":
            paths[key] = os.path.join(indir, "dir-" + key)
            os.makedirs(paths[key], exist_ok=True)
            continue
        fdata = load(name).encode()
        fault = (cfg.get("file_content") or {}).get(key)
        if fault:
            if fault["kind"] == "replace":
                fdata = fdata.replace(fault["old"].encode(), fault["new"].encode(), 1)
            else:
                fdata = content_fault(fdata, fault)
        paths[key] = os.path.join(indir, name)
        with open(paths[key], "wb") as fh:
            fh.write(fdata)
    argv = [a.format(**paths) for a in cfg.get("argv", [])]
    argv += [paths["input"], paths["output"]]
    return argv, paths


def cfg_key(cfg):
    import json
    return json.dumps(cfg, sort_keys=True)

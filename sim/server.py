"""Interpreter server.

One fresh CPython interpreter (own PYTHONHASHSEED / PYTHONMALLOC), which imports the
repository under test exactly once and then executes every job in a freshly forked
child -- a pristine *world* in which no pdb2pqr run has happened yet.  The server
itself never runs pdb2pqr code, so job results cannot depend on which jobs ran before
or on how jobs were distributed over servers.

Protocol (line oriented JSON):
  stdin : one job per line  {"id": ..., "kind": ..., ...};  EOF = no more jobs
  fd 3-dup of stdout : one result per line {"id":..., "result": ...} or
                       {"id":..., "harness_error": "..."}

Nothing in here draws random numbers or reads a clock for anything except the per-job
wall-clock limit (a limit hit is a HARNESS error, never a verdict).
"""

from __future__ import annotations

import faulthandler
import json
import os
import select
import signal
import sys
import time
import traceback

HERE = os.path.dirname(os.path.abspath(__file__))
VERIF_ROOT = os.path.dirname(HERE)


def _setup_paths():
    repo = os.environ.get("VERIF_REPO", "/repo")
    if VERIF_ROOT not in sys.path:
        sys.path.insert(0, VERIF_ROOT)
    # the repo under test always wins over any installed copy
    sys.path.insert(0, repo)
    return repo


def _child(job, wfd, scratch_base):
    """Run one job in this (forked) process and write the JSON result to wfd."""
    try:
        faulthandler.enable(file=sys.stderr)
        from sim import world

        res = world.run_job(job, scratch_base)
        payload = {"id": job["id"], "result": res}
    except BaseException:  # noqa: BLE001 - everything is reported as harness error
        payload = {
            "id": job["id"],
            "harness_error": traceback.format_exc()[-4000:],
        }
    try:
        data = (json.dumps(payload, sort_keys=True) + "\n").encode()
        view = memoryview(data)
        while view:
            n = os.write(wfd, view)
            view = view[n:]
    finally:
        os._exit(0)


def main():
    repo = _setup_paths()
    par = int(os.environ.get("VERIF_SERVER_PAR", "4"))
    job_timeout = float(os.environ.get("VERIF_JOB_TIMEOUT", "300"))
    # protocol channel = original stdout; fd 1 is then pointed at /dev/null so that
    # nothing printed by the code under test can corrupt the protocol.
    proto = os.fdopen(os.dup(1), "w", buffering=1)
    devnull = os.open(os.devnull, os.O_WRONLY)
    os.dup2(devnull, 1)
    if os.environ.get("VERIF_SERVER_QUIET", "1") == "1":
        os.dup2(devnull, 2)

    from sim import world

    world.preimport(repo)
    scratch_base = world.make_scratch_base()
    proto.write(json.dumps({"ready": True, "pid": os.getpid(),
                            "hashseed": os.environ.get("PYTHONHASHSEED"),
                            "repo": world.REPO_FILE}) + "\n")

    stdin_fd = 0
    os.set_blocking(stdin_fd, False)
    inbuf = b""
    pending = []  # parsed jobs not yet started
    stdin_open = True
    active = {}  # pid -> dict(job, rfd, buf, t0)

    def start(job):
        rfd, wfd = os.pipe()
        sys.stdout.flush()
        sys.stderr.flush()
        pid = os.fork()
        if pid == 0:
            os.close(rfd)
            try:
                os.close(stdin_fd)
            except OSError:
                pass
            signal.signal(signal.SIGTERM, signal.SIG_DFL)
            _child(job, wfd, scratch_base)
            os._exit(0)
        os.close(wfd)
        os.set_blocking(rfd, False)
        active[pid] = {"job": job, "rfd": rfd, "buf": b"", "t0": time.monotonic()}

    def finish(pid, st, timed_out=False):
        info = active.pop(pid)
        # drain
        while True:
            try:
                chunk = os.read(info["rfd"], 1 << 16)
            except BlockingIOError:
                break
            if not chunk:
                break
            info["buf"] += chunk
        os.close(info["rfd"])
        line = info["buf"].decode(errors="replace").strip()
        if timed_out:
            out = {"id": info["job"]["id"],
                   "harness_error": f"job wall-clock limit {job_timeout}s exceeded"}
        elif line:
            try:
                out = json.loads(line)
            except ValueError:
                out = {"id": info["job"]["id"],
                       "harness_error": "unparsable child output: " + line[:500]}
        else:
            out = {"id": info["job"]["id"],
                   "harness_error": f"child died without result (status {st})"}
        proto.write(json.dumps(out, sort_keys=True) + "\n")
        world.remove_job_scratch(scratch_base, info["job"]["id"])

    try:
        while stdin_open or pending or active:
            while pending and len(active) < par:
                start(pending.pop(0))
            rlist = [info["rfd"] for info in active.values()]
            if stdin_open:
                rlist.append(stdin_fd)
            ready, _, _ = select.select(rlist, [], [], 0.1)
            for fd in ready:
                if fd == stdin_fd:
                    try:
                        chunk = os.read(stdin_fd, 1 << 16)
                    except BlockingIOError:
                        continue
                    if not chunk:
                        stdin_open = False
                        continue
                    inbuf += chunk
                    while b"\n" in inbuf:
                        line, inbuf = inbuf.split(b"\n", 1)
                        if line.strip():
                            pending.append(json.loads(line))
                else:
                    for info in active.values():
                        if info["rfd"] == fd:
                            try:
                                chunk = os.read(fd, 1 << 16)
                            except BlockingIOError:
                                chunk = None
                            if chunk:
                                info["buf"] += chunk
                            break
            # reap
            for pid in list(active):
                try:
                    rpid, st = os.waitpid(pid, os.WNOHANG)
                except ChildProcessError:
                    rpid, st = pid, -1
                if rpid == pid:
                    finish(pid, st)
                elif time.monotonic() - active[pid]["t0"] > job_timeout:
                    try:
                        os.kill(pid, signal.SIGKILL)
                        os.waitpid(pid, 0)
                    except OSError:
                        pass
                    finish(pid, -9, timed_out=True)
    finally:
        for pid in list(active):
            try:
                os.kill(pid, signal.SIGKILL)
            except OSError:
                pass
        world.remove_scratch_base(scratch_base)


if __name__ == "__main__":
    main()

"""Run one pdb2pqr invocation inside the current world and describe the outcome using
only what a user can observe: exception / return value and the files on disk."""

from __future__ import annotations

import hashlib
import os

from sim import corpus


def sha(data):
    return hashlib.sha256(data).hexdigest() if data is not None else None


def read_bytes(path):
    try:
        with open(path, "rb") as fh:
            return fh.read()
    except (FileNotFoundError, IsADirectoryError, NotADirectoryError):
        return None


def stat_sig(path):
    """Identity of what a user finds at `path`: the file it resolves to (inode, size,
    mtime) and -- when the path itself is a symbolic link -- the link (its inode and
    target), so that replacing or removing a link counts as touching the path."""
    try:
        lst = os.lstat(path)
    except OSError:
        return None
    link = None
    if (lst.st_mode & 0o170000) == 0o120000:
        link = [lst.st_ino, os.readlink(path)]
    try:
        st = os.stat(path)
    except OSError:
        return [None, None, None, link]
    sig = [st.st_ino, st.st_size, st.st_mtime_ns]
    if link is not None:
        sig.append(link)
    return sig


def outcome_of_exception(exc):
    """Classify how an entry point ended.  'loud' = anything but a normal return /
    SystemExit(0)."""
    if exc is None:
        return "ok"
    if isinstance(exc, SystemExit):
        code = exc.code
        if code is None or code == 0:
            return "ok"
        return "fail"
    return "fail"


def call_entry(entry, argv, ns_cache=None):
    """Invoke the programmatic entry point.  Returns (outcome, exc_type_name, exc_text)."""
    from pdb2pqr import main as main_mod

    exc = None
    ret = None
    try:
        if entry == "run_pdb2pqr":
            ret = main_mod.run_pdb2pqr(argv)
        elif entry == "main_driver":
            parser = main_mod.build_main_parser()
            args = parser.parse_args([str(a) for a in argv])
            ret = main_mod.main_driver(args)
        elif entry == "main_driver_reuse":
            # the same Namespace object is handed to main_driver twice over a history
            key = tuple(str(a) for a in argv)
            if ns_cache is not None and key in ns_cache:
                args = ns_cache[key]
            else:
                parser = main_mod.build_main_parser()
                args = parser.parse_args(list(key))
                if ns_cache is not None:
                    ns_cache[key] = args
            ret = main_mod.main_driver(args)
        else:
            raise ValueError(entry)
    except BaseException as e:  # noqa: BLE001 - the outcome *is* the exception
        exc = e
    outcome = outcome_of_exception(exc)
    if exc is None and ret == 1:
        outcome = "fail"  # the convention main() honours: main_driver(...) == 1
    etype = type(exc).__name__ if exc is not None else None
    etext = (str(exc)[:300] if exc is not None else None)
    return outcome, etype, etext


def run_cfg(cfg, scratch, entry="run_pdb2pqr", tag="r", out_dir=None, ns_cache=None,
            before_call=None, after_call=None):
    """Materialise cfg under scratch/<tag>/in, run, return observation dict."""
    indir = os.path.join(scratch, tag, "in")
    outdir = out_dir or os.path.join(scratch, tag, "out")
    argv, paths = corpus.materialise(cfg, indir, outdir)
    if before_call is not None:
        before_call(argv, paths)
    try:
        outcome, etype, etext = call_entry(entry, argv, ns_cache)
    finally:
        if after_call is not None:
            after_call(argv, paths)
    data = read_bytes(paths["output"])
    return {"outcome": outcome, "exc": etype, "exc_text": etext, "pqr_sha": sha(data),
            "pqr_len": (len(data) if data is not None else None), "paths": paths,
            "pqr": data}

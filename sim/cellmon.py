"""Harness-side monitor of the cell map inside whole pdb2pqr runs (DESIGN.md 5b).

Class-level wrappers (installed from outside, no repo change) record, per atom, who last
registered / unregistered / moved / detached it.  At every neighbour query the pipeline
issues, the *returned list* is compared with a brute-force search over the live atom
set of the biomolecule (`biomolecule.atoms` at that instant).  The verdict uses only the
returned list and the live model; the recorded events merely attribute a discrepancy to
the code that caused it.
"""

from __future__ import annotations

import os
import sys

import numpy as np

from sim import world

# frames in these files are plumbing, never the responsible site
_SKIP_FILES = ("cells.py", "residue.py", "structures.py", "aa.py", "na.py", "quatfit.py",
               "utilities.py", "ligand" + os.sep + "__init__.py")


class _Rec:
    __slots__ = ("atom", "reg", "reg_xyz", "add_site", "unreg_site", "stale_site",
                 "removed_site", "create_site", "prev_cell", "grp_site", "grp_start")

    def __init__(self, atom):
        self.atom = atom  # strong ref: ids are never reused while the monitor lives
        self.reg = None
        self.reg_xyz = None
        self.add_site = None
        self.unreg_site = None
        self.stale_site = None
        self.removed_site = None
        self.create_site = None
        self.prev_cell = None
        self.grp_site = None
        self.grp_start = None


class CellMonitor:
    def __init__(self):
        self.recs = {}
        self.bio = {}  # id(cells) -> (cells, biomolecule)
        self.last_bio = None  # the run's biomolecule, as last handed to any assign_cells
        self.coord_version = 0
        self._cache = None  # (model_list, coord_version, xyz, index)
        self.findings = {}  # key -> {count, witness}
        self.stats = {"queries": 0, "queries_unobserved": 0, "adds": 0, "removes": 0,
                      "noop_removes": 0, "coord_writes_registered": 0, "moves_cross": 0,
                      "assigns": 0, "detached": 0, "expected_pairs": 0,
                      "queries_with_neighbours": 0,
                      "queries_on_map_not_built_by_assign_cells": 0}
        self.site_events = set()  # (site, event kind)
        self.query_sites = {}
        self._orig = {}
        self._installed = False
        self._pkg = world.REPO_PKG_DIR
        self._in_check = False

    # ------------------------------------------------------------------ attribution
    def site(self, depth=2):
        f = sys._getframe(depth)
        pkg = self._pkg
        while f is not None:
            fn = f.f_code.co_filename
            if fn.startswith(pkg):
                rel = fn[len(pkg):]
                if not rel.endswith(_SKIP_FILES) or rel.startswith("hydrogens"):
                    return f"{rel}:{f.f_code.co_qualname}"
            f = f.f_back
        return "<outside-repo>"

    def rec(self, atom):
        r = self.recs.get(id(atom))
        if r is None:
            r = self.recs[id(atom)] = _Rec(atom)
        return r

    # ------------------------------------------------------------------ wrappers
    def install(self):
        from pdb2pqr import cells as cells_mod
        from pdb2pqr import residue as residue_mod
        from pdb2pqr import structures as structures_mod

        mon = self
        Cells = cells_mod.Cells
        Residue = residue_mod.Residue
        Atom = structures_mod.Atom
        o_assign, o_add, o_remove, o_near = (Cells.assign_cells, Cells.add_cell,
                                             Cells.remove_cell, Cells.get_near_cells)
        o_rm_atom = Residue.remove_atom
        o_atom_init = Atom.__init__
        self._orig = {(Cells, "assign_cells"): o_assign, (Cells, "add_cell"): o_add,
                      (Cells, "remove_cell"): o_remove, (Cells, "get_near_cells"): o_near,
                      (Residue, "remove_atom"): o_rm_atom, (Atom, "__init__"): o_atom_init}

        def assign_cells(self, biomolecule):
            mon.bio[id(self)] = (self, biomolecule)
            mon.last_bio = biomolecule
            mon.stats["assigns"] += 1
            return o_assign(self, biomolecule)

        def add_cell(self, atom):
            r = mon.rec(atom)
            out = o_add(self, atom)
            s = mon.site()
            r.reg = id(self)
            r.reg_xyz = (atom.x, atom.y, atom.z)
            r.add_site = s
            r.stale_site = None
            r.grp_site = None
            if r.prev_cell is not None and getattr(atom, "cell", None) != r.prev_cell:
                mon.stats["moves_cross"] += 1
            r.prev_cell = None
            mon.stats["adds"] += 1
            mon.site_events.add((s, "add"))
            return out

        def remove_cell(self, atom):
            r = mon.rec(atom)
            # "was it registered?" from the monitor's own record of add/remove calls, not
            # from atom.cell (an implementation may keep the key elsewhere)
            was = getattr(atom, "cell", None) if r.reg is None else (r.reg, "registered")
            if r.reg is not None and r.reg != id(self):
                was = None  # registered in an older map instance: a no-op for this one
            out = o_remove(self, atom)
            s = mon.site()
            if was is None:
                mon.stats["noop_removes"] += 1
                mon.site_events.add((s, "noop_remove"))
            else:
                r.reg = None
                r.unreg_site = s
                r.prev_cell = was
                mon.stats["removes"] += 1
                mon.site_events.add((s, "remove"))
            return out

        def get_near_cells(self, atom):
            res = o_near(self, atom)
            if not mon._in_check:
                mon._in_check = True
                try:
                    mon.check_query(self, atom, res)
                finally:
                    mon._in_check = False
            return res

        def remove_atom(self, atomname):
            atom = self.map.get(atomname)
            out = o_rm_atom(self, atomname)
            if atom is not None:
                r = mon.rec(atom)
                s = mon.site()
                r.removed_site = s
                mon.stats["detached"] += 1
                mon.site_events.add((s, "detach" if r.reg is None else "detach_registered"))
            return out

        def atom_init(self, *a, **kw):
            o_atom_init(self, *a, **kw)
            r = mon.rec(self)
            r.create_site = mon.site()

        def atom_setattr(self, name, value):
            if name == "x" or name == "y" or name == "z":
                d = self.__dict__
                if name in d and d[name] != value:
                    mon.coord_version += 1
                    r = mon.recs.get(id(self))
                    if r is not None and r.reg is not None:
                        s = mon.site()
                        if r.grp_site != s:
                            mon.close_group(r)
                            r.grp_site = s
                            r.grp_start = (d.get("x"), d.get("y"), d.get("z"))
                        mon.stats["coord_writes_registered"] += 1
                        mon.site_events.add((s, "write_registered"))
            object.__setattr__(self, name, value)

        Cells.assign_cells = assign_cells
        Cells.add_cell = add_cell
        Cells.remove_cell = remove_cell
        Cells.get_near_cells = get_near_cells
        Residue.remove_atom = remove_atom
        Atom.__init__ = atom_init
        Atom.__setattr__ = atom_setattr
        self._atom_cls = Atom
        self._installed = True

    def uninstall(self):
        if not self._installed:
            return
        for (cls, name), fn in self._orig.items():
            setattr(cls, name, fn)
        try:
            del self._atom_cls.__setattr__
        except AttributeError:
            pass
        self._installed = False

    # ------------------------------------------------------------------ the oracle
    def _model(self, bio):
        model = bio.atoms
        c = self._cache
        if c is not None and c[1] == self.coord_version and c[0] == model:
            return c
        xyz = np.array([(b.x, b.y, b.z) for b in model], dtype=float).reshape(-1, 3)
        index = {id(b): i for i, b in enumerate(model)}
        self._cache = (model, self.coord_version, xyz, index)
        return self._cache

    def check_query(self, cells, a, res):
        ent = self.bio.get(id(cells))
        st = self.stats
        if ent is None and self.last_bio is not None:
            # a map that was filled without assign_cells (atom by atom): it still indexes
            # the run's one biomolecule -- the monitor must not go blind on it
            ent = (cells, self.last_bio)
            st["queries_on_map_not_built_by_assign_cells"] = \
                st.get("queries_on_map_not_built_by_assign_cells", 0) + 1
        if ent is None:
            st["queries_unobserved"] += 1
            return
        st["queries"] += 1
        qsite = self.site(3)
        self.query_sites[qsite] = self.query_sites.get(qsite, 0) + 1
        size = cells.cellsize
        model, _, xyz, index = self._model(ent[1])
        pa = np.array((a.x, a.y, a.z), dtype=float)
        if len(model):
            diff = xyz - pa
            d = np.sqrt(diff[:, 0] * diff[:, 0] + diff[:, 1] * diff[:, 1]
                        + diff[:, 2] * diff[:, 2])
            within = d < size
        else:
            d = np.zeros(0)
            within = np.zeros(0, dtype=bool)
        ai = index.get(id(a))
        expected = set(np.nonzero(within)[0].tolist())
        expected.discard(ai)
        got = set()
        problems = []
        for b in res:
            if b is a:
                problems.append(("self-returned", b, 0.0))
                continue
            i = index.get(id(b))
            if i is None:
                db = float(np.sqrt((b.x - a.x) ** 2 + (b.y - a.y) ** 2 + (b.z - a.z) ** 2))
                if db < size:
                    problems.append(("ghost", b, db))
                continue
            if within[i]:
                if i in got:
                    problems.append(("duplicate", b, float(d[i])))
                got.add(i)
        for i in expected - got:
            problems.append(("missing", model[i], float(d[i])))
        st["expected_pairs"] += len(expected)
        if expected:
            st["queries_with_neighbours"] += 1
        if not problems:
            return
        for kind, b, dist in problems:
            cause, site = self.classify(kind, cells, a, b)
            key = f"{kind}|{cause}|{site}"
            f = self.findings.get(key)
            if f is None:
                f = self.findings[key] = {
                    "kind": kind, "cause": cause, "site": site, "count": 0,
                    "witness": {
                        "query_atom": self.describe(a), "other_atom": self.describe(b),
                        "distance": round(dist, 6), "cellsize": size, "query_site": qsite,
                        "query_index": st["queries"],
                    }}
            f["count"] += 1

    @staticmethod
    def _moved(p, q, tol=1e-9):
        if p is None or q is None:
            return True
        try:
            return max(abs(p[0] - q[0]), abs(p[1] - q[1]), abs(p[2] - q[2])) > tol
        except TypeError:
            return True

    def close_group(self, r):
        """Consecutive coordinate writes by one site form a group; a group whose net
        displacement is zero (e.g. three 120-degree rotations) is not blamed."""
        if r.grp_site is not None:
            a = r.atom
            if self._moved(r.grp_start, (a.x, a.y, a.z)):
                r.stale_site = r.grp_site
            r.grp_site = None

    def classify(self, kind, cells, a, b):
        rb = self.rec(b)
        ra = self.rec(a)
        self.close_group(rb)
        self.close_group(ra)
        cid = id(cells)
        if kind == "ghost":
            return "detached-still-registered", (rb.removed_site or "never-in-model@" + str(rb.create_site))
        if kind == "duplicate":
            return "registered-twice", (rb.add_site or "?")
        if kind == "self-returned":
            return "self", (ra.add_site or "?")
        # missing
        if rb.reg != cid:
            if rb.unreg_site is not None and rb.reg is None:
                return "neighbour-unregistered", rb.unreg_site
            return "neighbour-never-registered", str(rb.create_site)
        if self._moved(rb.reg_xyz, (b.x, b.y, b.z)):
            return "neighbour-stale", str(rb.stale_site)
        if ra.reg != cid:
            if ra.unreg_site is not None and ra.reg is None:
                return "query-unregistered", ra.unreg_site
            return "query-never-registered", str(ra.create_site)
        if self._moved(ra.reg_xyz, (a.x, a.y, a.z)):
            return "query-stale", str(ra.stale_site)
        return "index-logic", "cells.py"

    @staticmethod
    def describe(atom):
        res = getattr(atom, "residue", None)
        return {
            "name": atom.name,
            "residue": (f"{getattr(res, 'name', '?')} {getattr(res, 'chain_id', '?')} "
                        f"{getattr(res, 'res_seq', '?')}") if res is not None else None,
            "xyz": [atom.x, atom.y, atom.z],
        }

    def report(self):
        return {
            "stats": dict(self.stats),
            "findings": {k: self.findings[k] for k in sorted(self.findings)},
            "site_events": sorted(f"{s}|{e}" for s, e in self.site_events),
            "query_sites": {k: self.query_sites[k] for k in sorted(self.query_sites)},
        }

#!/bin/sh
# Rebuilds the frozen workload corpus from the repository's own test data.
# Kept for provenance; the checks read /verif/corpus, never /repo/tests/data,
# so later edits to the repo's test data cannot silently change the workload.
set -e
cd /repo/tests/data
cp 1A1P.pdb 1AFS.pdb 1AJJ.pdb 1BX8.pdb 1K1I.pdb 1FAS.cif 1QBS.pdb 1US0.pdb \
   5vav_cyclic_peptide.pdb cterm_hid.pdb 1QBS-ligand.mol2 1US0-ligand.mol2 \
   custom-ff.dat custom.names cterm_hid_out.pqr dx2cube.pqr ethanol.mol2 adp.mol2 \
   /verif/corpus/
cp propka.cfg with ASP/GLU model pKa raised by 2 -> propka-alt.cfg (see DESIGN 10)

"""C12 -- runs fail loudly and leave the output path alone (failure side + write ordering).

Simulated system: whole pdb2pqr invocations (real code, real propka/pdbx/numpy) in forked
worlds with the I/O seam, the fake RCSB endpoint and the sys.monitoring crash injector.
A *scenario* is a short history of runs that all target one output path; a reference
model of that path (absent | bytes) is advanced after every run and compared with the
real file (bytes and inode/size/mtime).  See DESIGN.md section 4.
"""

from __future__ import annotations

import errno
import json
import logging
import os
import random
import sys

from sim import corpus, forkrun, runner, world

SENTINEL = b"SENTINEL previous content of the output path\nline 2\n"

FATAL_ERRNOS = {errno.EIO, errno.EMFILE, errno.ENOSPC}


# ============================================================================ worlds
def _labels(paths):
    lab = {}
    for k in ("input", "ligand", "userff", "usernames", "propkacfg", "output", "pdbout", "apbsout"):
        p = paths.get(k)
        if isinstance(p, str) and os.sep in p:
            lab[os.path.realpath(p)] = k
    return lab


class _NoMonitor:
    """Stand-in when a run needs no step counting and no code faults."""
    fired = ()
    n_line = 0
    n_start = 0
    foreign_in_window = {}

    def start(self):
        pass

    def stop(self):
        pass

    def step(self):
        return 0


def execute_run(run, scdir, idx, note_fd, out_name="out.pqr", outdir=None, use_monitor=True,
                ns_cache=None):
    """One pdb2pqr invocation under seams + monitor.  Returns an observation dict.

    run["ambient"] (optional) sets things the output must NOT depend on: simulated
    clock, cwd, relative vs absolute paths, TZ / LANG, names of the input and output
    files, junk already present in the output directory."""
    from sim import clock, monitor, seams

    cfg = run["cfg"]
    entry = run.get("entry", "run_pdb2pqr")
    faults = run.get("faults") or []
    amb = run.get("ambient") or {}
    indir = os.path.join(scdir, f"in-{idx}")
    outdir = outdir or os.path.join(scdir, "out")
    if amb.get("in_name") and cfg.get("input_mode", "file") == "file":
        suffix = ".cif" if cfg["item"].endswith(".cif") else ".pdb"
        cfg = dict(cfg, input_name=amb["in_name"] + suffix)
    if amb.get("out_name"):
        out_name = amb["out_name"]
    argv, paths = corpus.materialise(cfg, indir, outdir, out_name)
    if run.get("cli_extra") and entry in ("cli", "cli_module"):
        # options that exist for the command line only (they must not change the verdict)
        argv = list(run["cli_extra"]) + argv
    if amb.get("junk"):
        for name in ("out.log", "out.pdb", "out.in", "leftover.tmp", out_name + ".bak"):
            with open(os.path.join(outdir, name), "w") as fh:
                fh.write("junk left by an earlier program\n")
    old_cwd = os.getcwd()
    old_env = {k: os.environ.get(k) for k in ("TZ", "LANG", "LC_ALL")}
    if amb.get("clock") is not None:
        clock.set_epoch(amb["clock"])
    if amb.get("tz"):
        os.environ["TZ"] = amb["tz"]
        import time as _t
        _t.tzset()
    if amb.get("lang"):
        os.environ["LANG"] = amb["lang"]
        os.environ["LC_ALL"] = amb["lang"]
    if amb.get("cwd") == "scratch" or amb.get("rel"):
        os.chdir(scdir)
        if amb.get("rel"):
            pre = os.path.realpath(scdir) + os.sep
            argv = [a.replace(pre, "") if isinstance(a, str) else a for a in argv]
    elif amb.get("cwd") == "root":
        os.chdir("/")
    pkg = world.REPO_PKG_DIR
    datdir = os.path.join(pkg, "dat")
    redirect = {}
    for f in faults:
        if f["k"] == "data":
            real = os.path.join(datdir, f["file"])
            with open(real, "rb") as fh:
                data = fh.read()
            sub = os.path.join(scdir, f"data-{idx}")
            os.makedirs(sub, exist_ok=True)
            subp = os.path.join(sub, f["file"])
            with open(subp, "wb") as fh:
                fh.write(corpus.content_fault(data, f["fault"]))
            redirect[real] = subp
    import propka

    seam = seams.IOSeam(
        watch_roots=[scdir, datdir, os.path.dirname(propka.__file__)],
        labels=_labels(paths),
        plan=[f for f in faults if f["k"] == "io"],
        redirect=redirect, out_path=paths["output"], repo_pkg_dir=pkg)
    net_script = None
    for f in faults:
        if f["k"] == "net":
            net_script = f["script"]
    if net_script is None:
        net_script = ([{"kind": "ok"}] if cfg.get("input_mode") == "pdbid"
                      else [{"kind": "exc", "type": "ConnectionError"}])
    net = seams.NetSeam(net_script, paths.get("net_body", b""))
    code_faults = [f for f in faults if f["k"] in ("exc", "kill", "stage")]
    need_lines = bool(run.get("profile")) or any(
        f["k"] in ("exc", "kill") and f.get("event") not in ("PY_START", "FOREIGN")
        for f in code_faults) or any(
        f["k"] == "stage" and f["when"] == "return" for f in code_faults)
    if use_monitor or code_faults or run.get("profile"):
        mon = monitor.RunMonitor(pkg, seam, code_faults, record_lines=bool(run.get("profile")),
                                 death_fd=note_fd, lines=need_lines)
    else:
        mon = _NoMonitor()
    seam.seq_source = mon.step
    if entry in ("cli", "cli_module"):
        logging.disable(logging.NOTSET)
    old_argv = sys.argv
    seam.install()
    net.install()
    mon.start()
    try:
        if entry in ("cli", "cli_module"):
            from pdb2pqr import main as main_mod
            sys.argv = ["pdb2pqr"] + [str(a) for a in argv]
            exc = None
            ret = None
            try:
                if entry == "cli":
                    # console script generated from [project.scripts]: sys.exit(main())
                    ret = main_mod.main()
                else:
                    # python -m pdb2pqr
                    import runpy
                    runpy.run_module("pdb2pqr", run_name="__main__", alter_sys=True)
            except BaseException as e:  # noqa: BLE001
                exc = e
            outcome = runner.outcome_of_exception(exc)
            if exc is None and ret not in (None, 0):
                outcome = "fail"  # sys.exit(<non-zero / message>)
            etype = type(exc).__name__ if exc is not None else None
            etext = str(exc)[:300] if exc is not None else None
        else:
            outcome, etype, etext = runner.call_entry(entry, argv, ns_cache)
    finally:
        mon.stop()
        net.uninstall()
        seam.uninstall()
        sys.argv = old_argv
        os.chdir(old_cwd)
        for k, v in old_env.items():
            if v is None:
                os.environ.pop(k, None)
            else:
                os.environ[k] = v
        if amb.get("tz"):
            import time as _t
            _t.tzset()
        if entry in ("cli", "cli_module"):
            logging.shutdown()
            logging.disable(logging.CRITICAL)
    fired = list(mon.fired)
    for f in seam.fired:
        g = dict(f)
        g["k"] = "io"
        # window flags for io faults are derived from which file was hit
        is_out = f["path"] == "output"
        g["in_window"] = bool(is_out and f["kind"] in ("io:write-fail", "io:close-fail"))
        fired.append(g)
    for f in net.fired:
        g = dict(f)
        g["k"] = "net"
        fired.append(g)
    obs = {"outcome": outcome, "exc": etype, "exc_text": etext, "fired": fired,
           "paths": {k: v for k, v in paths.items() if isinstance(v, str)},
           "out_owner": (seam.out_owner.co_filename[len(pkg):] + ":" + seam.out_owner.co_qualname)
           if seam.out_owner is not None else None,
           "out_events": [e[0] for e in seam.out_events],
           "unclosed": seam.unclosed(), "n_line": mon.n_line, "n_start": mon.n_start,
           "net_requests": len(net.requests),
           "files": [[r["label"], r["mode"], r.get("read", 0), r.get("write", 0)]
                     for r in seam.log]}
    if run.get("profile"):
        obs["profile"] = mon.profile()
    else:
        obs["foreign_in_window"] = dict(mon.foreign_in_window)
    return obs


def _child_reference(note_fd, cfg, scdir, data_faults=None):
    """Reference run of cfg from an absent output path (pristine world): no injected
    failure; `data_faults` (corrupt built-in data files) belong to the *situation* whose
    fault-free behaviour is the reference, like corrupt input bytes do."""
    obs = execute_run({"cfg": cfg, "profile": False, "faults": data_faults or []}, scdir, 0,
                      note_fd)
    data = runner.read_bytes(obs["paths"]["output"])
    if data is not None:
        with open(os.path.join(scdir, "R.bin"), "wb") as fh:
            fh.write(data)
    return {"outcome": obs["outcome"], "exc": obs["exc"], "exc_text": obs["exc_text"],
            "has_pqr": data is not None, "out_events": obs["out_events"],
            "unclosed": obs["unclosed"], "pqr_len": len(data) if data is not None else None}


def _child_profile(note_fd, cfg, scdir):
    obs = execute_run({"cfg": cfg, "profile": True}, scdir, 0, note_fd)
    data = runner.read_bytes(obs["paths"]["output"])
    if data is not None:
        with open(os.path.join(scdir, "R.bin"), "wb") as fh:
            fh.write(data)
    obs["has_pqr"] = data is not None
    obs["pqr_len"] = len(data) if data is not None else None
    return obs


class Refs:
    """Fault-free references, one pristine world each, cached per job."""

    def __init__(self, scratch):
        self.scratch = scratch
        self.cache = {}
        self.n = 0

    def get(self, cfg, data_faults=None):
        key = corpus.cfg_key(cfg)
        if data_faults:
            key += "|" + json.dumps(data_faults, sort_keys=True)
        if key in self.cache:
            return self.cache[key]
        self.n += 1
        scdir = os.path.join(self.scratch, f"ref-{self.n}")
        os.makedirs(scdir, exist_ok=True)
        cr = forkrun.forked(_child_reference, cfg, scdir, data_faults, timeout=120)
        fin = cr.final()
        if fin is None:
            raise RuntimeError(f"reference run died: {cr.error()} status={cr.status}")
        fin["pqr"] = runner.read_bytes(os.path.join(scdir, "R.bin")) if fin["has_pqr"] else None
        self.cache[key] = fin
        return fin


# ============================================================================ judge
def is_fatal(f):
    k = f.get("k")
    if k in ("exc", "kill", "stage"):
        return True
    if k == "io":
        if f["kind"] in ("io:read-fail", "io:write-fail", "io:close-fail"):
            return True
        return f.get("errno") in FATAL_ERRNOS
    if k == "net":
        return not f["kind"].startswith("net:body")
    return False


def judge(run, outcome, fired, before, after, ref):
    """before/after = (bytes|None, stat_sig|None); ref = fault-free reference of the
    run's cfg.  Returns (violation dict | None, notes dict)."""
    notes = {}
    fatal = [f for f in fired if is_fatal(f)]
    expect_fail = run.get("expect") == "fail"
    b_bytes, b_stat = before
    a_bytes, a_stat = after
    untouched = (a_bytes == b_bytes) and (a_stat == b_stat)
    complete = ref is not None and ref["outcome"] == "ok" and ref["pqr"] is not None and \
        a_bytes == ref["pqr"]

    def v(kind, **kw):
        d = {"kind": kind, "outcome": outcome,
             "fired": [{k: x.get(k) for k in ("k", "kind", "exc", "file", "qualname", "line",
                                               "stage", "when", "in_window", "interleaved",
                                               "after_window", "path", "errno")
                        if x.get(k) is not None} for x in fired]}
        d.update(kw)
        return d

    if outcome == "ok":
        if fatal:
            return v("swallowed-failure"), notes
        if expect_fail:
            return v("trigger-not-loud", detail="a cfg the property names as a failure cause "
                     "returned normally", wrote_output=a_bytes is not None and not untouched), notes
        soft = [f for f in fired if not is_fatal(f)]
        if ref is not None and soft and all(f.get("kind") == "io:open-fail" for f in soft):
            # an open() that failed with ENOENT/EACCES/... may be survived by a genuine
            # fallback, but then the result must be the valid one, not a silently different one
            if ref["outcome"] == "ok" and a_bytes != ref["pqr"]:
                return v("io-error-silently-changed-output",
                         got_len=len(a_bytes) if a_bytes is not None else None,
                         want_len=len(ref["pqr"]) if ref["pqr"] is not None else None), notes
            return None, notes
        if ref is not None and not soft:
            if ref["outcome"] != "ok":
                return v("succeeded-where-reference-fails"), notes
            if a_bytes != ref["pqr"]:
                return v("success-output-differs-from-fault-free-reference",
                         got_len=len(a_bytes) if a_bytes is not None else None,
                         want_len=len(ref["pqr"]) if ref["pqr"] is not None else None), notes
        elif a_bytes is None:
            return v("success-without-output"), notes
        return None, notes

    # ---- the run failed or was killed
    if not fatal and run.get("expect") == "ok":
        return v("success-side", detail="fault-free run of a well-formed corpus structure failed",
                 exc=run.get("_exc")), notes
    if not fatal:
        # natural failure: the output must be untouched, or -- when the failure came
        # after the PQR had been completed (secondary outputs) -- complete.
        if untouched:
            if ref is not None and ref["outcome"] == "ok" and not run.get("expect") \
                    and not fired:
                return v("failed-where-reference-succeeds", exc=run.get("_exc")), notes
            return None, notes
        if complete:
            notes["natural_failure_after_window"] = 1
            return None, notes
        if ref is not None and ref["outcome"] != "ok" and ref["pqr"] is not None and \
                a_bytes == ref["pqr"] and "close" in (ref.get("out_events") or []):
            notes["natural_failure_after_window"] = 1
            return None, notes
        return v("failed-run-modified-output",
                 before_len=len(b_bytes) if b_bytes is not None else None,
                 after_len=len(a_bytes) if a_bytes is not None else None), notes
    dec = fatal[-1]
    if dec.get("in_window"):
        notes["fault_in_write_window"] = 1
        if not untouched and not complete:
            notes["out_of_scope_torn_output"] = 1
        return None, notes
    if dec.get("interleaved"):
        notes["fault_while_output_open_in_deeper_frame"] = 1
        if untouched or complete:
            return None, notes
        return v("output-opened-before-computation-finished",
                 after_len=len(a_bytes) if a_bytes is not None else None), notes
    if dec.get("after_window") or (dec.get("k") == "io" and dec.get("path") in
                                   ("pdbout", "apbsout")):
        notes["fault_after_write_window"] = 1
        if complete:
            return None, notes
        if untouched and dec.get("k") == "io":
            return None, notes
        return v("pqr-not-complete-after-window",
                 after_len=len(a_bytes) if a_bytes is not None else None), notes
    notes["fault_before_write_window"] = 1
    if untouched:
        return None, notes
    # a fault on a secondary output may come after the PQR was completed; if the seam never
    # saw the output being opened at all (written through a channel it does not wrap), the
    # observable "the PQR is the complete one" has to be enough -- a gap in the
    # instrumentation must not raise an alarm (DESIGN 2.3)
    oev = run.get("_out_events") or []
    if complete and ("close" in oev or not oev):
        notes["fault_after_write_window"] = 1
        return None, notes
    return v("failed-run-modified-output",
             before_len=len(b_bytes) if b_bytes is not None else None,
             after_len=len(a_bytes) if a_bytes is not None else None), notes


# ============================================================================ scenario
def _child_scenario(note_fd, sc, scdir):
    """Executes the runs of one scenario; writes begin/end notes around each run so the
    parent can judge a killed run from the file system alone."""
    out_name = sc.get("out_name") or "out.pqr"
    out = os.path.join(scdir, "out", out_name)
    os.makedirs(os.path.dirname(out), exist_ok=True)
    pre = sc.get("pre", "absent")
    if pre == "sentinel":
        with open(out, "wb") as fh:
            fh.write(SENTINEL)
    elif pre == "directory":
        os.makedirs(out)
        with open(os.path.join(out, "keep.txt"), "wb") as fh:
            fh.write(SENTINEL)
    elif pre in ("symlink", "dangling", "hardlink"):
        # the output path is a link: to an existing file elsewhere (a failed run must
        # leave link and target alone), to a file that does not exist yet (a failed run
        # must not create it), or a second name of a file (same content under both names)
        keep = os.path.join(scdir, "elsewhere")
        os.makedirs(keep, exist_ok=True)
        target = os.path.join(keep, "target.pqr")
        if pre != "dangling":
            with open(target, "wb") as fh:
                fh.write(SENTINEL)
        if pre == "hardlink":
            os.link(target, out)
        else:
            os.symlink(target, out)
    elif isinstance(pre, dict):
        obs = execute_run({"cfg": pre["run"]}, scdir, "pre", note_fd, out_name=out_name)
        if obs["outcome"] != "ok":
            return {"pre_failed": obs["exc_text"]}
    results = []
    for i, run in enumerate(sc["runs"]):
        b = runner.read_bytes(out)
        if b is not None:
            with open(os.path.join(scdir, f"before-{i}.bin"), "wb") as fh:
                fh.write(b)
        forkrun.note(note_fd, {"begin": i, "before_stat": runner.stat_sig(out),
                               "before_exists": b is not None})
        obs = execute_run(run, scdir, i, note_fd, out_name=out_name)
        a = runner.read_bytes(out)
        if a is not None:
            with open(os.path.join(scdir, f"after-{i}.bin"), "wb") as fh:
                fh.write(a)
        forkrun.note(note_fd, {"end": i, "after_stat": runner.stat_sig(out),
                               "after_exists": a is not None, "obs": obs})
        results.append(i)
    return {"done": results}


def run_scenario(sc, scdir, refs):
    """Returns {"violation": ..., "notes": {...}, "fired": [...], "steps": n}."""
    os.makedirs(scdir, exist_ok=True)
    cr = forkrun.forked(_child_scenario, sc, scdir, timeout=180)
    if cr.timed_out:
        raise RuntimeError("scenario wall-clock limit exceeded")
    if cr.error():
        raise RuntimeError("scenario child failed: " + cr.error())
    fin = cr.final()
    if fin is not None and "pre_failed" in fin:
        return {"violation": None, "notes": {"pre_failed": 1}, "fired": [], "steps": 0,
                "outcomes": []}
    out = os.path.join(scdir, "out", sc.get("out_name") or "out.pqr")
    begins = {n["begin"]: n for n in cr.notes if "begin" in n}
    ends = {n["end"]: n for n in cr.notes if "end" in n}
    deaths = [n["death"] for n in cr.notes if "death" in n]
    agg = {}
    all_fired = []
    steps = 0
    outcomes = []
    for i, run in enumerate(sc["runs"]):
        if i not in begins:
            break
        bpath = os.path.join(scdir, f"before-{i}.bin")
        before = (runner.read_bytes(bpath) if begins[i]["before_exists"] else None,
                  begins[i]["before_stat"])
        data_faults = [f for f in (run.get("faults") or []) if f["k"] == "data"]
        ref = refs.get(run["cfg"], data_faults) if run.get("want_ref", True) else None
        if i in ends:
            obs = ends[i]["obs"]
            apath = os.path.join(scdir, f"after-{i}.bin")
            after = (runner.read_bytes(apath) if ends[i]["after_exists"] else None,
                     ends[i]["after_stat"])
            outcome, fired = obs["outcome"], obs["fired"]
            steps += obs["n_line"] or obs["n_start"]
            run = dict(run, _out_events=obs["out_events"], _exc=obs["exc"])
            for q in (obs.get("foreign_in_window") or {}):
                agg["foreign_call_in_window:" + q] = 1
        else:
            # the child died inside this run (kill fault, or a genuine crash)
            if not deaths:
                raise RuntimeError(f"scenario child died without death note, status {cr.status}")
            outcome, fired = "killed", [deaths[-1]]
            after = (runner.read_bytes(out), runner.stat_sig(out))
            steps += deaths[-1].get("step", 0)
        outcomes.append(outcome)
        all_fired.extend(fired)
        viol, notes = judge(run, outcome, fired, before, after, ref)
        for k, val in notes.items():
            agg[k] = agg.get(k, 0) + val
        if viol:
            viol["run_index"] = i
            return {"violation": viol, "notes": agg, "fired": all_fired, "steps": steps,
                    "outcomes": outcomes}
        if outcome == "killed":
            break
    return {"violation": None, "notes": agg, "fired": all_fired, "steps": steps,
            "outcomes": outcomes}


# ============================================================================ generation
# spellings of the output file name for runs through the command-line entry, which derives
# the name of its log file from it ("<stem>.log" next to the output): no suffix, several
# dots, a blank, upper case, a second suffix, and names whose derived log name is the
# output path itself
OUT_NAMES = ("out.pqr", "result", "a.b.pqr", "x y.pqr", "OUT.PQR", "out.pqr.txt", "run.log")

def _pre_cycle(i, prev_cfg):
    return ["absent", "sentinel", {"run": prev_cfg}][i % 3]


def build_scenarios(cfg, prof, seed, tier, prev_cfg):
    """Deterministic list of scenarios for one cfg: enumerations first, then seeded
    random ones.  Every scenario is explicit (replayable without this generator)."""
    rng = random.Random(seed)
    quick = tier == "quick"
    P = prof["profile"]
    n_line = P["n_line"]
    sc = []
    k = 0

    def add(tag, runs, pre=None):
        nonlocal k
        one = {"tag": tag, "pre": pre if pre is not None else _pre_cycle(k, prev_cfg),
               "runs": runs}
        if any(r.get("entry") in ("cli", "cli_module") for r in runs):
            one["out_name"] = OUT_NAMES[k % len(OUT_NAMES)]
        sc.append(one)
        k += 1

    # --- 1. stage boundaries
    for name, cnt in P["stages"]:
        combos = [("entry", "ValueError"), ("entry", "MemoryError"), ("return", "ValueError")]
        if not quick:
            combos.append(("return", "MemoryError"))
        for when, exc in combos:
            add("stage", [{"cfg": cfg, "faults": [{"k": "stage", "stage": name, "occ": 1,
                                                  "when": when, "exc": exc}]}])
        if cnt > 1:
            add("stage", [{"cfg": cfg, "faults": [{"k": "stage", "stage": name, "occ": cnt,
                                                  "when": "entry", "exc": "ValueError"}]}])
    # --- 2. I/O faults on every file the fault-free run opened
    seen = set()
    for label, mode, nread, nwrite in prof["files"]:
        if (label, mode) in seen:
            continue
        seen.add((label, mode))
        writing = any(c in mode for c in "wax+")
        for en in (errno.EACCES, errno.EIO) + (() if quick else (errno.EMFILE, errno.ENOENT)):
            add("io-open", [{"cfg": cfg, "faults": [{"k": "io", "op": "open", "path_label": label,
                                                    "n": 1, "errno": en}]}])
        if not writing and nread:
            for n in sorted({1, max(1, nread // 2), nread}):
                add("io-read", [{"cfg": cfg, "faults": [{"k": "io", "op": "read",
                                                        "path_label": label, "n": n,
                                                        "errno": errno.EIO}]}])
        if writing and nwrite:
            for n in sorted({1, max(1, nwrite // 2), nwrite}):
                for en in (errno.ENOSPC,) + (() if quick else (errno.EIO,)):
                    add("io-write", [{"cfg": cfg, "faults": [{"k": "io", "op": "write",
                                                             "path_label": label, "n": n,
                                                             "errno": en}]}])
            add("io-close", [{"cfg": cfg, "faults": [{"k": "io", "op": "close",
                                                     "path_label": label, "n": 1,
                                                     "errno": errno.EIO}]}])
    # --- 3. content faults (torn / corrupt files): judged against the fault-free
    #        reference of the *same* bytes
    if cfg.get("input_mode", "file") in ("file", "pdbid"):
        size = len(corpus.structure_text(cfg).encode())
        text = corpus.structure_text(cfg)
        nl = [i for i, ch in enumerate(text) if ch == "\n"]
        cuts = [0, 1] + ([nl[len(nl) // 2] - 1, nl[len(nl) // 2] + 40] if len(nl) > 4 else []) + \
               ([nl[-2] - 1, nl[-2] + 1] if len(nl) > 2 else [])
        specs = [{"kind": "short", "at": c} for c in cuts]
        specs += [{"kind": "garble", "at": rng.randrange(max(1, size)), "xor": x}
                  for x in (0x20, 0x01, 0x80)]
        specs += [{"kind": "html"}, {"kind": "utf8", "at": size // 3}, {"kind": "header"},
                  {"kind": "blankline", "at": 5}, {"kind": "binary"}, {"kind": "empty"}]
        if not quick:
            specs += [{"kind": "short", "at": rng.randrange(max(1, size))} for _ in range(6)]
            specs += [{"kind": "garble", "at": rng.randrange(max(1, size)), "xor": 0x10}
                      for _ in range(6)]
        for s in specs:
            c2 = dict(cfg, content=s)
            add("content", [{"cfg": c2, "entry": rng.choice(["run_pdb2pqr", "cli", "cli_module"])}])
    for key in sorted((cfg.get("files") or {})):
        if cfg["files"][key] is None:
            continue
        fsize = len(corpus.load(cfg["files"][key]).encode())
        for s in ({"kind": "short", "at": 0}, {"kind": "short", "at": fsize // 2},
                  {"kind": "html"}, {"kind": "garble", "at": rng.randrange(max(1, fsize))},
                  {"kind": "utf8", "at": fsize // 2}):
            c2 = dict(cfg, file_content=dict(cfg.get("file_content") or {}, **{key: s}))
            add("content-file", [{"cfg": c2}])
    datfiles = sorted({label.split("/", 1)[1] for label, mode, _, _ in prof["files"]
                       if label.startswith("dat/")})
    for df in datfiles:
        for s in ({"kind": "short", "at": 0}, {"kind": "short", "at": 2000},
                  {"kind": "garble", "at": rng.randrange(4000)}, {"kind": "html"}):
            add("content-data", [{"cfg": cfg,
                                  "faults": [{"k": "data", "file": df, "fault": s}]}])
    # --- 4. the write window and what follows it
    # directed: the first call into any other repository function made while the output
    # is open (fires only if such a call exists, i.e. computation is interleaved with writing)
    add("foreign-in-window", [{"cfg": cfg, "faults": [{"k": "exc", "event": "FOREIGN",
                                                      "exc": "MemoryError"}]}],
        pre={"run": prev_cfg})
    add("foreign-in-window", [{"cfg": cfg, "faults": [{"k": "kill", "event": "FOREIGN"}]}],
        pre="sentinel")
    lo, hi = P["window_line_range"]
    if lo is not None:
        pts = sorted({lo, lo + 1, (lo + hi) // 2, hi - 1, hi})
        for at in pts:
            for kind in ("exc", "kill"):
                f = {"k": kind, "event": "LINE", "at": at}
                if kind == "exc":
                    f["exc"] = "MemoryError"
                add("window", [{"cfg": cfg, "faults": [f]}])
        for at in sorted({lo - 1, lo - 2, max(1, lo - 50)}):
            add("pre-window", [{"cfg": cfg, "faults": [{"k": "kill", "event": "LINE", "at": at}]}])
            add("pre-window", [{"cfg": cfg, "faults": [{"k": "exc", "event": "LINE", "at": at,
                                                      "exc": "KeyboardInterrupt"}]}])
        if hi < n_line:
            span = n_line - hi
            for at in sorted({hi + 1, hi + 2, hi + span // 2, n_line - 1, n_line}):
                add("post-window", [{"cfg": cfg, "faults": [{"k": "kill", "event": "LINE",
                                                           "at": at}]}])
                add("post-window", [{"cfg": cfg, "faults": [{"k": "exc", "event": "LINE",
                                                           "at": at, "exc": "MemoryError"}]}])
    # --- 5. every distinct executed source line as a crash point (sampled in quick)
    lines = P["lines"]
    if quick:
        stride = max(1, len(lines) // 110)
        off = seed % stride
        chosen = lines[off::stride]
    else:
        chosen = lines
    for rel, qual, line, first, cnt in chosen:
        add("line", [{"cfg": cfg, "faults": [{"k": "exc", "loc": [rel, qual, line, 1],
                                            "exc": "MemoryError"}]}])
        if not quick and cnt > 1:
            add("line-last", [{"cfg": cfg, "faults": [{"k": "kill", "loc": [rel, qual, line, cnt]}]}])
    # --- 6. seeded random instants, kinds and short histories
    nrand = 24 if quick else 400
    excs = ["MemoryError", "KeyboardInterrupt", "RecursionError"]
    for _ in range(nrand):
        runs = []
        for _r in range(rng.choice([1, 1, 2, 3])):
            faults = []
            r = rng.random()
            if r < 0.55:
                mode = rng.random()
                if mode < 0.4 or lo is None:
                    at = rng.randint(1, max(1, n_line))
                elif mode < 0.7:
                    at = max(1, min(n_line, rng.choice([lo, hi, 1, n_line]) + rng.randint(-50, 50)))
                else:
                    at = max(1, min(n_line, rng.choice([lo - 1, lo, hi, hi + 1])))
                if rng.random() < 0.35:
                    faults.append({"k": "kill", "event": "LINE", "at": at})
                else:
                    faults.append({"k": "exc", "event": "LINE", "at": at, "exc": rng.choice(excs)})
            elif r < 0.7 and P["stages"]:
                name, cnt = rng.choice(P["stages"])
                faults.append({"k": "stage", "stage": name, "occ": rng.randint(1, cnt),
                               "when": rng.choice(["entry", "return"]),
                               "exc": rng.choice(["ValueError", "MemoryError"])})
            elif r < 0.85 and prof["files"]:
                label, mode, nread, nwrite = rng.choice(prof["files"])
                writing = any(c in mode for c in "wax+")
                if writing and nwrite:
                    faults.append({"k": "io", "op": "write", "path_label": label,
                                   "n": rng.randint(1, nwrite),
                                   "errno": rng.choice([errno.ENOSPC, errno.EIO])})
                elif nread:
                    faults.append({"k": "io", "op": "read", "path_label": label,
                                   "n": rng.randint(1, nread), "errno": errno.EIO})
            # else: a fault-free run inside the history
            entry = rng.choice(["run_pdb2pqr", "run_pdb2pqr", "main_driver", "cli", "cli_module"])
            one_run = {"cfg": cfg, "entry": entry, "faults": faults}
            if entry.startswith("cli") and rng.random() < 0.6:
                one_run["cli_extra"] = ["--log-level", rng.choice(["DEBUG", "WARNING", "ERROR",
                                                                   "CRITICAL"])]
            runs.append(one_run)
        add("random", runs)
    # --- 7. the output path is a link (symbolic to an existing file, symbolic to a file
    #        that does not exist yet, hard link): early / late / pre-window failures must
    #        leave link and target alone, a success must deliver R(cfg) through it
    stages = P["stages"]
    for j, pre in enumerate(("symlink", "dangling", "hardlink")):
        if stages:
            add("linked-output", [{"cfg": cfg, "faults": [
                {"k": "stage", "stage": stages[0][0], "occ": 1, "when": "entry",
                 "exc": "ValueError"}]}], pre=pre)
            add("linked-output", [{"cfg": cfg, "faults": [
                {"k": "stage", "stage": stages[-1][0], "occ": stages[-1][1], "when": "return",
                 "exc": "ValueError"}]}], pre=pre)
            mid = stages[(len(stages) * (j + 1)) // 4]
            add("linked-output", [{"cfg": cfg, "entry": ("cli", "main_driver", "cli_module")[j],
                                   "faults": [
                {"k": "stage", "stage": mid[0], "occ": 1, "when": "return",
                 "exc": "MemoryError"}]}], pre=pre)
        if lo is not None:
            add("linked-output", [{"cfg": cfg, "faults": [{"k": "kill", "event": "LINE",
                                                          "at": lo - 1}]}], pre=pre)
        add("linked-output", [{"cfg": cfg, "faults": []},
                              {"cfg": cfg, "faults": [{"k": "exc", "event": "LINE",
                                                       "at": max(1, n_line // 2),
                                                       "exc": "KeyboardInterrupt"}]}], pre=pre)
    return sc


NET_KINDS = [
    [{"kind": "exc", "type": "ConnectionError"}],
    [{"kind": "exc", "type": "Timeout"}],
    [{"kind": "exc", "type": "ChunkedEncodingError"}],
    [{"kind": "status", "code": 404}],
    [{"kind": "status", "code": 429}],
    [{"kind": "status", "code": 500}],
    [{"kind": "status", "code": 503}],
    # statuses below 400 that are not 200, delivered with a parseable part of the entry: the
    # transport says "this is not the complete / authoritative / processed entry"
    [{"kind": "status", "code": 206, "fault": {"kind": "cutlines", "frac": 0.6}}],
    [{"kind": "status", "code": 203, "fault": {"kind": "cutlines", "frac": 0.8}}],
    [{"kind": "status", "code": 202, "fault": {"kind": "cutlines", "frac": 0.5}}],
    [{"kind": "body", "fault": {"kind": "empty"}}],
    [{"kind": "body", "fault": {"kind": "html"}}],
    [{"kind": "body", "fault": {"kind": "short", "at": 3000}}],
    [{"kind": "ok"}],
]


# ============================================================================ jobs
def _shrink_scenario(sc, scdir_base, refs, want_kind):
    """Keep the violation class, make the scenario smaller."""
    cnt = [0]

    def fails(cand):
        cnt[0] += 1
        try:
            r = run_scenario(cand, os.path.join(scdir_base, f"shr-{cnt[0]}"), refs)
        except RuntimeError:
            return False
        return r["violation"] is not None and r["violation"]["kind"] == want_kind

    cur = json.loads(json.dumps(sc))
    # fewer runs
    i = 0
    while len(cur["runs"]) > 1 and i < len(cur["runs"]):
        cand = dict(cur, runs=cur["runs"][:i] + cur["runs"][i + 1:])
        if fails(cand):
            cur = cand
        else:
            i += 1
    # simpler pre-state
    for pre in ("absent", "sentinel"):
        if cur.get("pre") != pre:
            cand = dict(cur, pre=pre)
            if fails(cand):
                cur = cand
                break
    # fewer faults, simpler entry, fewer options
    for ri in range(len(cur["runs"])):
        run = cur["runs"][ri]
        fl = list(run.get("faults") or [])
        j = 0
        if run.get("expect"):
            j = len(fl)  # a trigger's data faults are part of what makes it a trigger
        while j < len(fl):
            cand_run = dict(run, faults=fl[:j] + fl[j + 1:])
            cand = dict(cur, runs=cur["runs"][:ri] + [cand_run] + cur["runs"][ri + 1:])
            if fails(cand):
                fl = cand_run["faults"]
                run = cand_run
                cur = cand
            else:
                j += 1
        if run.get("entry", "run_pdb2pqr") != "run_pdb2pqr":
            cand_run = dict(run, entry="run_pdb2pqr")
            cand = dict(cur, runs=cur["runs"][:ri] + [cand_run] + cur["runs"][ri + 1:])
            if fails(cand):
                run = cand_run
                cur = cand
        argv = list(run["cfg"].get("argv") or [])
        j = 0
        if run.get("expect"):
            j = len(argv)  # a trigger's options are what makes it a trigger: never dropped
        while j < len(argv):
            if argv[j].startswith("--ff=") or argv[j].startswith("--userff"):
                j += 1
                continue
            cand_cfg = dict(run["cfg"], argv=argv[:j] + argv[j + 1:])
            cand_run = dict(run, cfg=cand_cfg)
            cand = dict(cur, runs=cur["runs"][:ri] + [cand_run] + cur["runs"][ri + 1:])
            if fails(cand):
                argv = cand_cfg["argv"]
                run = cand_run
                cur = cand
            else:
                j += 1
    return cur


@world.job_kind("c12.cfg")
def job_cfg(job, scratch):
    cfg = job["cfg"]
    refs = Refs(scratch)
    pdir = os.path.join(scratch, "prof")
    os.makedirs(pdir, exist_ok=True)
    cr = forkrun.forked(_child_profile, cfg, pdir, timeout=240)
    prof = cr.final()
    if prof is None:
        raise RuntimeError(f"profile run died: {cr.error()} status={cr.status}")
    out = {"cfg_name": job.get("cfg_name"), "profile_outcome": prof["outcome"],
           "n_line": prof["n_line"], "n_stages": len(prof["profile"]["stages"]),
           "distinct_lines": len(prof["profile"]["lines"]), "out_owner": prof["out_owner"],
           "scenarios": 0, "runs": 0, "steps": 0, "faults_fired": {}, "notes": {},
           "locations": [], "tags": {}, "violation": None, "sample": None,
           "foreign_in_window": prof["profile"]["foreign_in_window"]}
    if prof["outcome"] != "ok" or not prof["has_pqr"]:
        out["violation"] = {"kind": "success-side", "detail": "fault-free run of a corpus cfg "
                            "tagged well-formed failed", "exc": prof["exc"],
                            "exc_text": prof["exc_text"], "scenario": {"pre": "absent", "runs": [
                                {"cfg": cfg}]}}
        return out
    prof_ref = {"outcome": prof["outcome"], "exc": prof["exc"], "has_pqr": True,
                "pqr": runner.read_bytes(os.path.join(pdir, "R.bin")),
                "out_events": prof["out_events"], "unclosed": prof["unclosed"]}
    refs.cache[corpus.cfg_key(cfg)] = prof_ref
    scs = build_scenarios(cfg, prof, job["seed"], job["tier"], job["prev_cfg"])
    out["scenarios_total"] = len(scs)
    mine = scs[job["slice"][0]::job["slice"][1]]
    locs = set()
    for i, sc in enumerate(mine):
        res = run_scenario(sc, os.path.join(scratch, f"sc-{i}"), refs)
        out["scenarios"] += 1
        out["runs"] += len(res["outcomes"])
        out["steps"] += res["steps"]
        out["tags"][sc["tag"]] = out["tags"].get(sc["tag"], 0) + 1
        for f in res["fired"]:
            kind = f.get("kind") or (f["k"] + ":" + str(f.get("exc") or ""))
            if f["k"] == "stage":
                kind = f"stage:{f.get('exc')}"
            out["faults_fired"][kind] = out["faults_fired"].get(kind, 0) + 1
            if f.get("file"):
                locs.add(f"{f['k']}|{f['file']}:{f['line']}")
            elif f.get("path"):
                locs.add(f"{f['kind']}|{f['path']}")
        for k, val in res["notes"].items():
            out["notes"][k] = out["notes"].get(k, 0) + val
        if out["sample"] is None and sc["tag"] == "random" and res["fired"]:
            out["sample"] = {"scenario": sc, "outcomes": res["outcomes"],
                             "fired": [{k: f.get(k) for k in ("k", "kind", "exc", "file", "qualname",
                                                              "line", "step", "in_window",
                                                              "after_window", "path")
                                        if f.get(k) is not None} for f in res["fired"]]}
        if res["violation"]:
            small = _shrink_scenario(sc, os.path.join(scratch, f"shrink-{i}"), refs,
                                     res["violation"]["kind"])
            final = run_scenario(small, os.path.join(scratch, f"final-{i}"), refs)
            v = final["violation"] or res["violation"]
            v["scenario"] = small if final["violation"] else sc
            v["scenario_original_runs"] = len(sc["runs"])
            out["violation"] = v
            break
        world_cleanup(os.path.join(scratch, f"sc-{i}"))
    out["locations"] = sorted(locs)
    return out


def world_cleanup(path):
    import shutil
    shutil.rmtree(path, ignore_errors=True)


@world.job_kind("c12.scenarios")
def job_scenarios(job, scratch):
    """Explicit scenarios (triggers, net faults, replays)."""
    refs = Refs(scratch)
    out = {"scenarios": 0, "runs": 0, "steps": 0, "faults_fired": {}, "notes": {},
           "results": [], "violation": None, "locations": [], "tags": {}}
    for i, sc in enumerate(job["scenarios"]):
        res = run_scenario(sc, os.path.join(scratch, f"sc-{i}"), refs)
        out["scenarios"] += 1
        out["runs"] += len(res["outcomes"])
        out["steps"] += res["steps"]
        out["tags"][sc.get("tag", "?")] = out["tags"].get(sc.get("tag", "?"), 0) + 1
        for f in res["fired"]:
            kind = f.get("kind") or (f["k"] + ":" + str(f.get("exc") or ""))
            out["faults_fired"][kind] = out["faults_fired"].get(kind, 0) + 1
        for k, val in res["notes"].items():
            out["notes"][k] = out["notes"].get(k, 0) + val
        out["results"].append({"name": sc.get("name"), "index": i, "outcomes": res["outcomes"],
                               "violation": res["violation"]})
        if res["violation"] and not job.get("keep_going"):
            if job.get("shrink", True):
                small = _shrink_scenario(sc, os.path.join(scratch, f"shrink-{i}"), refs,
                                         res["violation"]["kind"])
                final = run_scenario(small, os.path.join(scratch, f"final-{i}"), refs)
                v = final["violation"] or res["violation"]
                v["scenario"] = small if final["violation"] else sc
            else:
                v = res["violation"]
                v["scenario"] = sc
            v["name"] = sc.get("name")
            out["violation"] = v
            break
        world_cleanup(os.path.join(scratch, f"sc-{i}"))
    return out


# ============================================================================ driver
CFGS = {
    "hid-amber": {"item": "cterm_hid.pdb", "argv": ["--ff=AMBER"]},
    "vav-charmm": {"item": "5vav_cyclic_peptide.pdb",
                   "argv": ["--ff=CHARMM", "--whitespace", "--keep-chain"]},
    "ajj-parse-secondary": {"item": "1AJJ.pdb", "window": [0, 12],
                            "argv": ["--ff=PARSE", "--neutraln", "--neutralc",
                                     "--pdb-output={pdbout}", "--apbs-input={apbsout}"]},
    "qbs-ligand": {"item": "1US0.pdb", "window": [0, 8], "lig_het": "1US0-ligand.mol2",
                   "argv": ["--ff=AMBER", "--ligand={ligand}"],
                   "files": {"ligand": "1US0-ligand.mol2"}},
    "hid-propka": {"item": "cterm_hid.pdb",
                   "argv": ["--ff=AMBER", "--titration-state-method=propka", "--with-ph=7.0"]},
    "bx8-userff": {"item": "1BX8.pdb", "window": [5, 10],
                   "argv": ["--userff={userff}", "--usernames={usernames}"],
                   "files": {"userff": "custom-ff.dat", "usernames": "custom.names"}},
    "hid-clean": {"item": "cterm_hid.pdb", "argv": ["--clean"]},
    "a1p-assign-only": {"item": "1A1P.pdb", "argv": ["--ff=AMBER", "--assign-only"]},
    "k1i-ffout-water": {"item": "1K1I.pdb", "window": [30, 10], "waters": 6,
                        "argv": ["--ff=AMBER", "--ffout=CHARMM", "--include-header",
                                 "--nodebump"]},
    "ajj-net": {"item": "1AJJ.pdb", "window": [10, 10], "input_mode": "pdbid",
                "pdbid": "1AJJ", "argv": ["--ff=SWANSON", "--ffout=CHARMM", "--drop-water"]},
    "fas-cif": {"item": "1FAS.cif", "argv": ["--ff=PARSE", "--whitespace"]},
    "bx8-damaged-tyl06": {"item": "1BX8.pdb", "window": [20, 14],
                          "damage": [[3, "drop_tail"], [8, "drop_atom:CG"]],
                          "argv": ["--ff=TYL06", "--apbs-input={apbsout}"]},
}
QUICK_CFGS = ["hid-amber", "ajj-parse-secondary", "qbs-ligand", "hid-propka", "bx8-userff",
              "hid-clean", "a1p-assign-only", "ajj-net"]


def _perturbable_charge(cfg):
    """(line prefix 'RES\\tCA\\t<charge>', charge) for a residue type that occurs exactly
    once in cfg's structure and has a CA entry in the user force field."""
    text = corpus.structure_text(cfg)
    names = [g["resname"] for g in corpus.polymer_groups(corpus.residue_groups(text.splitlines()))]
    ff = corpus.load(cfg["files"]["userff"])
    for res in sorted(set(names), key=lambda r: (names.count(r), r)):
        for line in ff.splitlines():
            w = line.split("\t")
            if len(w) >= 4 and w[0] == res and w[1] == "CA":
                return "\t".join(w[:3]), float(w[2])
    raise RuntimeError("no perturbable residue")


def trigger_scenarios(quick=False):
    """Failure causes the property names; each must be loud and leave the path alone.
    Every entry is a complete explicit scenario.  Thorough: every trigger x 3 pre-states
    x 2 entry points; quick: two of those six combinations per trigger, rotating."""
    base = {"item": "cterm_hid.pdb"}
    amber = ["--ff=AMBER"]
    T = []
    count = [0]

    def t(name, cfg, note="", faults=None, force_pre=None):
        pres = ("absent", "sentinel", {"run": CFGS["hid-amber"]}, "symlink", "dangling",
                "hardlink")
        entries = ("run_pdb2pqr", "cli", "cli_module")
        k = count[0]
        count[0] += 1
        combos = [(p, e) for p in range(3) for e in range(3)]
        combos += [(3 + (k + e) % 3, e) for e in range(3)]
        if quick:
            combos = [(k % 3, k % 3), ((k + 1) % 3, (k + 2) % 3)]
            if k % 4 == 0:
                combos.append((3 + (k // 4) % 3, (k // 4) % 3))
        if force_pre:
            combos = [(0, e) for e in range(3)]
        for pi, ei in combos:
            run = {"cfg": cfg, "entry": entries[ei], "expect": "fail", "want_ref": False}
            if faults:
                run["faults"] = faults
            sc = {"tag": "trigger", "name": name, "pre": force_pre or pres[pi], "runs": [run]}
            if ei:
                lvl = (None, "ERROR", "DEBUG", "CRITICAL", "WARNING")[(k + ei + pi) % 5]
                if lvl:
                    run["cli_extra"] = ["--log-level", lvl]
                # the CLI derives a log-file name from the output path: vary its spelling
                sc["out_name"] = OUT_NAMES[(k + pi) % len(OUT_NAMES)]
            T.append(sc)

    # unreadable or empty input
    for kind in ("empty", "header", "html", "binary"):
        for opts in (amber, ["--clean"], ["--ff=AMBER", "--assign-only"],
                     ["--ff=PARSE", "--nodebump", "--noopt"]):
            t(f"input-{kind}:{' '.join(opts)}", dict(base, content={"kind": kind}, argv=opts))
    t("input-invalid-utf8", dict(base, content={"kind": "utf8", "at": 200}, argv=amber))
    # the same through the mmCIF reader (chosen by the file-name extension)
    cif = {"item": "1FAS.cif"}
    for kind, spec in (("empty", {"kind": "empty"}), ("html", {"kind": "html"}),
                       ("binary", {"kind": "binary"}), ("no-atom-rows", {"kind": "header"}),
                       ("cut-in-header", {"kind": "short", "at": 3000}),
                       ("cut-in-first-loop", {"kind": "short", "at": 700})):
        for opts in (["--ff=PARSE"], ["--clean"], ["--ff=AMBER", "--assign-only"]):
            t(f"cif-{kind}:{' '.join(opts)}", dict(cif, content=spec, argv=opts))
    # a coordinate that cannot be read makes the structure unreadable
    for rec, cols, text, nm in ((40, [30, 38], "  1X.123", "x"), (3, [38, 46], " ****** ", "y"),
                                (77, [46, 54], "   n/a  ", "z"), (10, [30, 38], "        ", "blank-x")):
        for opts in (amber, ["--clean"]):
            t(f"input-garbled-coordinate-{nm}:{' '.join(opts)}",
              dict(base, content={"kind": "field", "record": rec, "cols": cols, "text": text},
                   argv=opts))
    t("input-missing-file", dict(base, input_mode="missing", input_name="nosuchfile.pdb",
                                 argv=amber))
    t("input-is-directory", dict(base, input_mode="dir", argv=amber))
    t("input-unknown-residues-only",
      dict(base, rename=[[i, "XXX"] for i in range(14)], argv=amber))
    t("input-waters-hetero-only-renamed", dict(base, rename=[[i, "UNK"] for i in range(14)],
                                               argv=["--ff=PARSE"]))
    # unusable option or file combination
    t("userff-without-usernames", dict(base, argv=["--userff={userff}"],
                                       files={"userff": "custom-ff.dat"}))
    t("neutraln-with-amber", dict(base, argv=["--ff=AMBER", "--neutraln"]))
    t("neutralc-with-charmm", dict(base, argv=["--ff=CHARMM", "--neutralc"]))
    t("ph-15", dict(base, argv=["--ff=AMBER", "--with-ph=15"]))
    t("ph-negative", dict(base, argv=["--ff=AMBER", "--with-ph=-1"]))
    t("unknown-forcefield", dict(base, argv=["--ff=NOSUCHFF"]))
    t("missing-ligand-file", dict(base, argv=["--ff=AMBER", "--ligand={ligand}"],
                                  files={"ligand": None}))
    t("missing-userff-file", dict(base, argv=["--userff={userff}", "--usernames={usernames}"],
                                  files={"userff": None, "usernames": "custom.names"}))
    t("missing-usernames-file", dict(base, argv=["--userff={userff}", "--usernames={usernames}"],
                                     files={"userff": "custom-ff.dat", "usernames": None}))
    t("malformed-usernames-html", dict(CFGS["bx8-userff"],
                                       file_content={"usernames": {"kind": "html"}}))
    t("malformed-usernames-truncated", dict(CFGS["bx8-userff"],
                                            file_content={"usernames": {"kind": "short", "at": 700}}))
    # non-integral total charge: one charge of a residue type that occurs exactly once in
    # the structure is shifted in the user force field (the file stays well-formed)
    U = CFGS["bx8-userff"]
    old_line, charge = _perturbable_charge(U)
    for delta in (0.01, 0.05, 0.2, 0.5, -0.3):
        t(f"nonintegral-charge-userff:{delta:+}",
          dict(U, file_content={"userff": {"kind": "replace", "old": old_line,
                                           "new": old_line.rsplit("\t", 1)[0] + f"\t{charge + delta:.6f}"}}))
    for nm, extra, more in (
            ("noopt-nodebump", ["--noopt", "--nodebump"], {}),
            ("keepchain-whitespace-dropwater", ["--keep-chain", "--whitespace", "--drop-water"], {}),
            ("propka", ["--titration-state-method=propka", "--with-ph=7"], {}),
            ("secondary-outputs", ["--pdb-output={pdbout}", "--apbs-input={apbsout}"], {}),
            ("ligand", ["--ligand={ligand}"],
             {"files": dict(U["files"], ligand="ethanol.mol2"), "lig_het": "ethanol.mol2"})):
        t(f"nonintegral-charge-userff:+0.2:{nm}",
          dict(U, argv=U["argv"] + extra, file_content={"userff": {
              "kind": "replace", "old": old_line,
              "new": old_line.rsplit("\t", 1)[0] + f"\t{charge + 0.2:.6f}"}}, **more))
    # a parameter record that lost a column makes the force-field file unusable, whether
    # or not the structure happens to need that record
    t("userff-record-missing-column:present-residue", dict(U, file_content={"userff": {
        "kind": "replace", "old": old_line + "\t", "new": old_line + "\n#"}}))
    absent = next(r for r in ("TRP", "MET", "HIS", "TYR", "PHE", "ARG") if r not in [
        g["resname"] for g in corpus.polymer_groups(corpus.residue_groups(
            corpus.structure_text(U).splitlines()))])
    aline = next("\t".join(l.split("\t")[:3]) for l in corpus.load("custom-ff.dat").splitlines()
                 if l.startswith(absent + "\tCA\t"))
    t("userff-record-missing-column:absent-residue", dict(U, file_content={"userff": {
        "kind": "replace", "old": aline + "\t", "new": aline + "\n#"}}))
    t("builtin-ff-record-missing-column:PARSE-ALA-CB",
      dict(base, argv=["--ff=PARSE"]),
      faults=[{"k": "data", "file": "PARSE.DAT", "fault": {
          "kind": "replace", "old": "ALA\tCB\t0.000\t2.0", "new": "ALA\tCB\t0.000"}}])
    t("builtin-ff-record-missing-column:AMBER-TRP-CA",
      dict(base, argv=["--ff=AMBER"]),
      faults=[{"k": "data", "file": "AMBER.DAT", "fault": {
          "kind": "replace", "old": "TRP\tCA\t-0.027500\t1.9080", "new": "TRP\tCA\t-0.027500"}}])
    # a total that is not a number at all is not integral either
    for tok in ("nan", "inf", "-inf", "1e400"):
        t(f"nonfinite-charge-userff:{tok}",
          dict(U, file_content={"userff": {"kind": "replace", "old": old_line,
                                           "new": old_line.rsplit("\t", 1)[0] + f"\t{tok}"}}))
    # the same on a highly charged structure (1AJJ, net charge -5) with small but real
    # deviations (2-4x the documented 1e-3 tolerance; residue charges carry 4 decimals)
    U5 = dict(U, item="1AJJ.pdb", window=None)
    U5.pop("window")
    old5, charge5 = _perturbable_charge(U5)
    for delta in (0.003, 0.002, -0.004, 0.03):
        t(f"nonintegral-charge-userff-net-5:{delta:+}",
          dict(U5, file_content={"userff": {"kind": "replace", "old": old5,
                                            "new": old5.rsplit("\t", 1)[0] + f"\t{charge5 + delta:.6f}"}}))
    t("userff-garbled-number", dict(U, file_content={"userff": {
        "kind": "replace", "old": old_line, "new": old_line.rsplit("\t", 1)[0] + "\t-0.0x52"}}))
    t("usernames-garbled-tag", dict(U, file_content={"usernames": {
        "kind": "replace", "old": "<residue>", "new": "<residue"}}))
    # out-of-range / incompatible options, more corners
    for ph in ("14.5", "14.01", "-0.5"):
        t(f"ph-{ph}", dict(base, argv=["--ff=AMBER", f"--with-ph={ph}"]))
    t("ph-15-propka", dict(base, argv=["--ff=AMBER", "--titration-state-method=propka",
                                       "--with-ph=15"]))
    # a pH that is not a number inside [0, 14] (NaN compares false with everything)
    t("ph-nan", dict(base, argv=["--ff=AMBER", "--with-ph=nan"]))
    t("ph-nan-propka", dict(base, argv=["--ff=PARSE", "--titration-state-method=propka",
                                        "--with-ph=NaN"]))
    t("ph-inf-propka", dict(base, argv=["--ff=AMBER", "--titration-state-method=propka",
                                        "--with-ph=inf"]))
    t("ph-not-a-number", dict(base, argv=["--ff=AMBER", "--with-ph=seven"]))
    t("unknown-ffout", dict(base, argv=["--ff=AMBER", "--ffout=NOSUCHFF"]))
    t("unknown-titration-method", dict(base, argv=["--ff=AMBER",
                                                   "--titration-state-method=guess"]))
    t("userff-is-directory", dict(base, argv=["--userff={userff}", "--usernames={usernames}"],
                                  files={"userff": "<dir>", "usernames": "custom.names"}))
    t("usernames-is-directory", dict(base, argv=["--userff={userff}", "--usernames={usernames}"],
                                     files={"userff": "custom-ff.dat", "usernames": "<dir>"}))
    # the output path names an existing directory: nothing can be written there
    t("output-is-directory", dict(base, argv=amber), force_pre="directory")
    t("output-is-directory:clean", dict(base, argv=["--clean"]), force_pre="directory")
    t("ligand-is-directory", dict(base, argv=["--ff=AMBER", "--ligand={ligand}"],
                                  files={"ligand": "<dir>"}))
    t("neutraln-with-tyl06", dict(base, argv=["--ff=TYL06", "--neutraln"]))
    t("neutralc-with-swanson", dict(base, argv=["--ff=SWANSON", "--neutralc"]))
    t("neutraln-neutralc-with-peoepb", dict(base, argv=["--ff=PEOEPB", "--neutraln", "--neutralc"]))
    t("missing-ligand-file-with-clean", dict(base, argv=["--clean", "--ligand={ligand}"],
                                             files={"ligand": None}))
    # structure too incomplete to repair
    t("no-backbone", dict(base, damage=[[i, "drop_atom:CA"] for i in range(14)]
                          + [[i, "drop_atom:N"] for i in range(14)]
                          + [[i, "drop_atom:C"] for i in range(14)], argv=amber))
    t("sidechains-stripped", dict({"item": "1AJJ.pdb", "window": [0, 20]},
                                  damage=[[i, "keep_backbone"] for i in range(20)], argv=amber))
    t("half-sidechains-stripped", dict({"item": "1AJJ.pdb", "window": [0, 20]},
                                       damage=[[i, "keep_backbone"] for i in range(0, 20, 2)],
                                       argv=["--ff=PARSE"]))
    # ligand problems the MOL2 reader / parameteriser rejects (structure carries the ligand's
    # hetero atoms; each verified loud on the repaired tree).  An HTML or empty MOL2 is NOT
    # in this list: pdb2pqr then merely drops the unparameterised hetero atoms (DESIGN 10.5).
    LG = {"item": "cterm_hid.pdb", "lig_het": "ethanol.mol2",
          "argv": ["--ff=AMBER", "--ligand={ligand}"], "files": {"ligand": "ethanol.mol2"}}
    mol = corpus.load("ethanol.mol2")
    a_line = next(l for l in mol.splitlines() if " CAA " in l)
    bsec = mol.index("@<TRIPOS>BOND")
    b_line = mol[bsec:].splitlines()[1]
    for nm, fc in (
            ("cut-in-atom-record", {"kind": "short", "at": mol.index(a_line) + 30}),
            ("cut-in-bond-record", {"kind": "short", "at": bsec + len("@<TRIPOS>BOND\n") + 6}),
            ("nonnumeric-coordinate", {"kind": "replace", "old": "-19.770", "new": "-19.7x0"}),
            ("unknown-atom-type", {"kind": "replace", "old": "C.3       1 DRG",
                                   "new": "Xx.9      1 DRG"}),
            ("duplicate-atom-names", {"kind": "replace", "old": " HAB ", "new": " HAA "}),
            ("bond-to-missing-atom", {"kind": "replace", "old": b_line,
                                      "new": b_line.replace(b_line.split()[2], "99", 1)})):
        t(f"ligand-mol2-{nm}", dict(LG, file_content={"ligand": fc}))
    btype = b_line.split()[-1]
    cut = b_line.rstrip().rfind(btype)
    for bt in ("am", "du", "un", "nc", "xx"):
        t(f"ligand-mol2-unsupported-bond-type:{bt}",
          dict(LG, file_content={"ligand": {"kind": "replace", "old": b_line,
                                            "new": b_line[:cut] + bt}}))
    t("ligand-mol2-invalid-atom-type", dict(LG, file_content={"ligand": {
        "kind": "replace", "old": "C.3       1 DRG", "new": "C.3.x     1 DRG"}}))
    t("ligand-without-hydrogens-nonintegral-charge", dict(LG, lig_drop_h=True))
    t("ligand-without-hydrogens-nonintegral-charge:parse-noopt",
      dict(LG, lig_drop_h=True, argv=["--ff=PARSE", "--noopt", "--ligand={ligand}"]))
    # more structure-level damage (each verified loud on the repaired tree)
    B14 = {"item": "1AJJ.pdb", "window": [0, 14], "waters": 6}
    t("chain-of-ca-atoms-only", dict(B14, damage=[[i, "ca_only"] for i in range(14)], argv=amber))
    t("chain-of-ca-atoms-only:nodebump-noopt",
      dict(B14, damage=[[i, "ca_only"] for i in range(14)],
           argv=["--ff=AMBER", "--nodebump", "--noopt"]))
    t("sidechains-stripped-60pct:nodebump-noopt",
      dict(B14, damage=[[i, "keep_backbone"] for i in range(14) if i % 5],
           argv=["--ff=PARSE", "--nodebump", "--noopt"]))
    # side chains cut off from the backbone: the intermediate carbons (CB, CG) are missing,
    # the distal atoms are present -- far over the repair limit, and every remaining
    # side-chain atom has no path to CA ("Found gap in biomolecule structure")
    for item, nres in (("cterm_hid.pdb", 14), ("1AJJ.pdb", 20)):
        st = {"item": item}
        if item != "cterm_hid.pdb":
            st["window"] = [0, nres]
        dmg = [[i, "drop_atom:CB"] for i in range(nres)] + [[i, "drop_atom:CG"] for i in range(nres)]
        for label, opts in (("parse-noopt", ["--ff=PARSE", "--noopt"]),
                            ("parse", ["--ff=PARSE"]),
                            ("amber-noopt", ["--ff=AMBER", "--noopt"]),
                            ("parse-nodebump-noopt", ["--ff=PARSE", "--nodebump", "--noopt"])):
            t(f"sidechains-disconnected:{item.split('.')[0]}:{label}",
              dict(st, damage=dmg, argv=opts))
    # ... and the variant that ONLY the connectivity check stops: complete termini (OXT
    # present), intermediate carbons missing only in residues without methyl branches, the
    # missing atoms' charges summing to zero -- no later stage trips over this structure, so
    # a connectivity check that is skipped, cached or disarmed lets it through to a PQR
    hid_groups = corpus.polymer_groups(corpus.residue_groups(
        corpus.first_model_lines(corpus.load("cterm_hid.pdb"))))
    only = [[len(hid_groups) - 1, "add_oxt"]]
    for i, g in enumerate(hid_groups):
        if g["resname"] in ("ARG", "GLN", "LYS", "PRO", "SER", "PHE", "TRP"):
            only.append([i, "drop_atom:CB"])
            if g["resname"] != "SER":
                only.append([i, "drop_atom:CG"])
            if g["resname"] == "LYS":
                only.append([i, "drop_atom:CD"])
    for label, opts in (("parse-noopt", ["--ff=PARSE", "--noopt"]),
                        ("parse-nodebump-noopt", ["--ff=PARSE", "--nodebump", "--noopt"]),
                        ("parse", ["--ff=PARSE"])):
        t(f"sidechains-disconnected-connectivity-only:{label}",
          dict(base, damage=only, argv=opts))
    t("waters-only", dict({"item": "1AJJ.pdb", "window": [0, 1], "waters": 10},
                          damage=[[0, "drop_backbone"], [0, "keep_backbone"]], argv=amber))
    t("waters-only:assign-only", dict({"item": "1AJJ.pdb", "window": [0, 1], "waters": 10},
                                      damage=[[0, "drop_backbone"], [0, "keep_backbone"]],
                                      argv=["--ff=PARSE", "--assign-only"]))
    # a complete structure (C-terminal OXT present, so no repair pass runs and nothing deletes
    # stray atoms) in which a standard residue carries atoms outside its definition
    PS = {"item": "1AJJ.pdb", "damage": [[36, "add_oxt"], [2, "phospho"]]}
    t("undefined-atoms-on-standard-residue:phosphoserine", dict(PS, argv=amber))
    t("undefined-atoms-on-standard-residue:phosphoserine:nodebump-noopt",
      dict(PS, argv=["--ff=PARSE", "--nodebump", "--noopt"]))
    # --assign-only on a structure without hydrogens: the histidine state cannot be told
    t("assign-only-histidine-without-hd1-he2",
      dict({"item": "1AJJ.pdb", "window": [3, 14]}, argv=["--ff=AMBER", "--assign-only"]))
    # a water without a recognisable oxygen
    t("water-without-oxygen", dict({"item": "1AJJ.pdb", "window": [3, 12], "waters": 6},
                                   water_no_oxygen=2, argv=amber))
    t("water-without-oxygen:noopt", dict({"item": "1AJJ.pdb", "window": [3, 12], "waters": 6},
                                         water_no_oxygen=0, argv=["--ff=PARSE", "--noopt"]))
    # more unlabelled chains than there are labels ("Too many chains exist in biomolecule.
    # Consider preparing subsets.")
    t("too-many-unlabelled-chains:63",
      dict({"item": "1AJJ.pdb", "window": [2, 3]}, many_chains=63, argv=["--ff=AMBER", "--noopt"]))
    t("too-many-unlabelled-chains:70:clean",
      dict({"item": "1AJJ.pdb", "window": [2, 2]}, many_chains=70, argv=["--clean"]))
    # a residue of which a single atom is left cannot be rebuilt (three anchors are needed)
    # (whole 1AJJ, so that the loss stays far below the 10 % repair limit and the rejection
    # really is "too few atoms present to reconstruct the residue")
    WH = {"item": "1AJJ.pdb"}
    t("residue-reduced-to-one-distal-atom:PHE-CZ", dict(WH, damage=[[6, "only_atom:CZ"]], argv=amber))
    t("residue-reduced-to-one-distal-atom:LYS-NZ:nodebump-noopt",
      dict(WH, damage=[[27, "only_atom:NZ"]], argv=["--ff=PARSE", "--nodebump", "--noopt"]))
    t("residue-reduced-to-one-distal-atom:TRP-CH2", dict(WH, damage=[[18, "only_atom:CH2"]],
                                                        argv=["--ff=CHARMM", "--drop-water"]))
    t("residue-reduced-to-one-atom:C-terminal-ALA-CB", dict(WH, damage=[[36, "only_atom:CB"]],
                                                          argv=amber))
    t("nan-coordinates-one-residue", dict(B14, damage=[[5, "coord:nan"]], argv=amber))
    t("nan-coordinates-one-residue:nodebump-noopt",
      dict(B14, damage=[[5, "coord:nan"]], argv=["--ff=PARSE", "--nodebump", "--noopt"]))
    t("inf-coordinates-one-residue", dict(B14, damage=[[9, "coord:inf"]], argv=["--ff=CHARMM"]))
    return T


def net_scenarios():
    cfg = CFGS["ajj-net"]
    S = []
    for i, script in enumerate(NET_KINDS):
        fatal = script[0]["kind"] in ("exc", "status")
        for pre in ("absent", {"run": CFGS["hid-amber"]}):
            S.append({"tag": "net", "name": "net-" + json.dumps(script[0]), "pre": pre,
                      "runs": [{"cfg": cfg, "want_ref": script[0]["kind"] == "ok",
                                "entry": "run_pdb2pqr" if i % 2 else "cli",
                                "faults": [{"k": "net", "script": script}]}]
                      + ([{"cfg": cfg}] if fatal else [])})
    return S


def success_side_scenarios(quick):
    """Sanity assertion for the success side (input-only, not decided by this family):
    fault-free runs of well-formed corpus structures with every built-in force field
    must succeed and be reproducible from different pre-states."""
    items = [{"item": "cterm_hid.pdb"}, {"item": "5vav_cyclic_peptide.pdb"},
             {"item": "1AJJ.pdb"}, {"item": "1BX8.pdb"}, {"item": "1A1P.pdb"}]
    if not quick:
        items += [{"item": "1K1I.pdb"}, {"item": "1QBS.pdb"}, {"item": "1US0.pdb"},
                  {"item": "1AJJ.pdb", "chains": ["B", " "]},
                  {"item": "1BX8.pdb", "damage": [[7, "altloc"], [12, "icode"]]}]
    S = []
    for i, it in enumerate(items):
        for j, ff in enumerate(["AMBER", "CHARMM", "PARSE", "TYL06", "PEOEPB", "SWANSON"]):
            if quick and (i + j) % 3:
                continue
            cfg = dict(it, argv=[f"--ff={ff}"])
            S.append({"tag": "success-side", "name": f"success:{it['item']}:{ff}",
                      "pre": ["absent", "sentinel"][(i + j) % 2],
                      "runs": [{"cfg": cfg, "expect": "ok", "entry": ["run_pdb2pqr", "cli"][j % 2]}]})
    return S


def violation_key(v):
    """Identity of a finding: the violation kind plus the trigger name / cfg options
    that produce it (not the seed, not the instant)."""
    if v.get("name"):
        return f"{v['kind']}|{v['name']}"
    return v["kind"]


def main(tier, seed):
    import time

    from sim import driver, evidence

    t0 = time.monotonic()
    quick = tier == "quick"
    names = QUICK_CFGS if quick else list(CFGS)
    nslices = 6 if quick else 48
    deadline = t0 + (240 if quick else 50 * 60)
    known = evidence.load_known("C12")
    jobs = []
    for ci, name in enumerate(names):
        for s in range(nslices):
            jobs.append({"id": f"{name}#{s}", "kind": "c12.cfg", "cfg": CFGS[name],
                         "cfg_name": name, "seed": seed * 1_000_003 + ci, "tier": tier,
                         "slice": [s, nslices],
                         "prev_cfg": CFGS["hid-amber"] if name != "hid-amber" else CFGS["hid-clean"]})
    trig = trigger_scenarios(quick)
    chunk = 12
    tjobs = [{"id": f"trig#{i // chunk}", "kind": "c12.scenarios", "keep_going": True,
              "scenarios": trig[i:i + chunk]} for i in range(0, len(trig), chunk)]
    nets = net_scenarios() + success_side_scenarios(quick)
    njobs = [{"id": f"net#{i // 6}", "kind": "c12.scenarios", "keep_going": True,
              "scenarios": nets[i:i + 6]} for i in range(0, len(nets), 6)]
    # the absolute checks (endpoint answers, must-fail triggers) are cheap and must never be
    # the ones a deadline on a loaded machine cuts off: they go first, one between every two
    # of the long per-cfg jobs
    order = []
    extra = njobs + tjobs
    for i, j in enumerate(jobs):
        if extra:
            order.append(extra.pop(0))
        order.append(j)
    order = extra + order

    agg = {"scenarios": 0, "runs": 0, "steps": 0, "faults_fired": {}, "notes": {}, "tags": {},
           "locations": set(), "per_cfg": {}, "samples": []}
    found = []  # (job id, violation)
    harness_errors = []

    def on_result(name, msg):
        if "harness_error" in msg:
            harness_errors.append(msg)
            return
        res = msg["result"]
        for k in ("scenarios", "runs", "steps"):
            agg[k] += res.get(k, 0)
        for field in ("faults_fired", "notes", "tags"):
            for k, v in (res.get(field) or {}).items():
                agg[field][k] = agg[field].get(k, 0) + v
        agg["locations"].update(res.get("locations") or [])
        if res.get("cfg_name"):
            pc = agg["per_cfg"].setdefault(res["cfg_name"], {
                "n_line": res["n_line"], "stages": res["n_stages"],
                "distinct_lines": res["distinct_lines"], "out_owner": res["out_owner"],
                "scenarios_total": res.get("scenarios_total"), "scenarios_run": 0,
                "foreign_in_window": res.get("foreign_in_window")})
            pc["scenarios_run"] += res["scenarios"]
            if res.get("sample") and len(agg["samples"]) < 3:
                agg["samples"].append(res["sample"])
        if res.get("violation"):
            found.append((msg["id"], res["violation"]))
        for r in res.get("results") or []:
            if r.get("violation"):
                v = dict(r["violation"])
                v["name"] = r["name"]
                v["_scenario_ref"] = (msg["id"], r["index"])
                found.append((msg["id"], v))

    with driver.ServerPool([("w", {"PYTHONHASHSEED": "0"}, 16)], job_timeout=1500) as pool:
        results, skipped = pool.run({"w": order}, deadline=deadline, on_result=on_result)
        # reach measure for the trigger catalogue: which of the repository's own `raise`
        # statements does at least one trigger execute?  (steers the catalogue; no verdict)
        raise_cov = {"raise_statements": 0, "reached_by_triggers": 0, "not_reached": []}
        try:
            import re as _re
            repo_pkg = os.path.join(os.environ.get("VERIF_REPO", "/repo"), "pdb2pqr")
            raises = []
            for root_, _, files_ in sorted(os.walk(repo_pkg)):
                for fn_ in sorted(files_):
                    if fn_.endswith(".py"):
                        p_ = os.path.join(root_, fn_)
                        with open(p_, encoding="utf-8", errors="replace") as fh_:
                            for i_, l_ in enumerate(fh_, 1):
                                if _re.match(r"\s*raise\b", l_):
                                    raises.append((p_[len(repo_pkg) + 1:], i_))
            seen_names = set()
            cjobs = []
            for sc_ in trigger_scenarios():
                if sc_["name"] not in seen_names:
                    seen_names.add(sc_["name"])
                    r_ = sc_["runs"][0]
                    cjobs.append({"id": "cov:" + sc_["name"], "kind": "c12.cover_trigger",
                                  "run": {"cfg": r_["cfg"], "faults": r_.get("faults")}})
            cres, _ = pool.run({"w": cjobs}, deadline=deadline)
            hit = set()
            for m_ in cres["w"].values():
                if "result" in m_:
                    for f_, lns_ in m_["result"]["lines"].items():
                        hit.update((f_, ln_) for ln_ in lns_)
            raise_cov = {"raise_statements": len(raises),
                         "reached_by_triggers": sum(1 for r_ in raises if r_ in hit),
                         "not_reached": [f"{f_}:{ln_}" for f_, ln_ in raises if (f_, ln_) not in hit]}
        except (OSError, driver.HarnessError):
            pass
        # group findings, minimise the unlisted ones (triggers were run with keep_going)
        by_key = {}
        for jid, v in found:
            by_key.setdefault(violation_key(v), []).append((jid, v))
        unknown = sorted(k for k in by_key if k not in known)
        replay_paths = []
        for n, key in enumerate(unknown[:4]):
            jid, v = by_key[key][0]
            sc = v.get("scenario")
            if sc is None:
                # trigger scenario: find it by name and let a job minimise it
                jmap = {j["id"]: j["scenarios"] for j in tjobs + njobs}
                ref_ = v.pop("_scenario_ref", None)
                cand = [jmap[ref_[0]][ref_[1]]] if ref_ and ref_[0] in jmap else [
                    s for s in trigger_scenarios() + nets if s.get("name") == v.get("name")]
                r, _ = pool.run({"w": [{"id": f"min{n}", "kind": "c12.scenarios",
                                        "scenarios": cand[:1]}]})
                m = r["w"].get(f"min{n}", {})
                vv = (m.get("result") or {}).get("violation")
                if vv:
                    v = vv
                    sc = vv.get("scenario")
                else:
                    sc = cand[0] if cand else None
            v.pop("_scenario_ref", None)
            path = evidence.write_replay("C12", seed, {
                "class": key, "kind": v["kind"], "scenario": sc, "violation": {
                    k: v[k] for k in v if k != "scenario"}}, suffix=f"-{n}")
            replay_paths.append(path)

    wall = time.monotonic() - t0
    known_seen = sorted(k for k in by_key if k in known)
    distinct = len(agg["locations"])
    coverage = {
        "evaluations": agg["runs"],
        "distinct_nontrivial": distinct,
        "rule": ("one evaluation = one pdb2pqr invocation inside a scenario (history of 1-3 runs "
                 "on one output path, pre-state absent / sentinel / previous real output) with "
                 "0-2 injected faults; enumerated per cfg: every stage boundary x {entry,return} "
                 "x {ValueError,MemoryError}, every file opened by the fault-free run x "
                 "{open-fail, read-fail first/mid/last, write-fail, close-fail}, torn/garbled/"
                 "HTML/empty contents of every input and built-in data file, crash and kill "
                 "points around and inside the write window, distinct executed source lines as "
                 "crash points (all in thorough, a seeded stride sample in quick), every fake-"
                 "RCSB response kind, and the catalogue of named failure triggers; plus seeded "
                 "random instants.  distinct_nontrivial = number of distinct (fault kind x code "
                 "location or file) pairs at which a fault actually fired."),
        "samples": agg["samples"] or [{"note": "no random scenario finished"}],
        "exhaustive": False,
        "scenarios": agg["scenarios"],
        "simulated_runs": agg["runs"],
        "runs_per_hour": round(agg["runs"] / wall * 3600),
        "seeds_per_hour": round(agg["scenarios"] / wall * 3600),
        "simulated_steps": agg["steps"],
        "simulated_time": "n/a - no clock is read by the code under test",
        "faults_fired": dict(sorted(agg["faults_fired"].items())),
        "scenario_tags": agg["tags"],
        "reach_probes": dict(sorted(agg["notes"].items())),
        "per_cfg": agg["per_cfg"],
        "distinct_states": {"measure": "distinct (fault kind x source line | file) pairs fired",
                            "value": distinct},
        "components": {"real": ["pdb2pqr (whole pipeline)", "propka", "mmcif_pdbx", "numpy",
                                "xml.sax", "argparse", "logging (CLI entry)"],
                       "stub": ["files.rcsb.org (in-process scripted endpoint)",
                                "file objects for watched paths are proxied (faults on "
                                "schedule, otherwise pass-through to the real file system on tmpfs)"]},
        "triggers": len(trig), "net_scenarios": len(nets),
        "trigger_reach": raise_cov,
        "known_findings_seen": {k: len(by_key[k]) for k in known_seen},
        "unlisted_violations": unknown,
        "jobs_skipped_by_deadline": len(skipped["w"]),
        "harness_errors": len(harness_errors),
        "out_of_scope_observations": {
            "torn_output_after_fault_inside_write_window":
                agg["notes"].get("out_of_scope_torn_output", 0)},
    }
    evidence.write_evidence(
        "C12", tier, seed, "fault_enumeration", coverage,
        ["success side (every well-formed structure succeeds) is input-only and merely "
         "sanity-asserted on the corpus cfgs",
         "device faults / kills inside the write window require loudness only (DESIGN 4, "
         "scope decision); the torn file is counted, not judged",
         "kill = process death; power loss with volatile page cache is not modelled",
         "exceptions are injected only at events of repository code objects"],
        wall, len(unknown))
    for k in known_seen:
        print(f"KNOWN-FINDING: property=C12 {k} -- {known[k].get('what', '')} "
              f"(seen {len(by_key[k])}x)")
    print(f"C12 {tier}: {agg['scenarios']} scenarios, {agg['runs']} runs, "
          f"{sum(agg['faults_fired'].values())} faults fired at {distinct} distinct places, "
          f"wall {wall:.0f}s, skipped {len(skipped['w'])}, harness errors {len(harness_errors)}")
    if harness_errors:
        print("HARNESS-ERROR " + json.dumps(harness_errors[0])[:2000])
    if unknown:
        for p in replay_paths:
            print(f"VIOLATION property=C12 replay={p}")
        return 1
    if harness_errors or agg["runs"] == 0:
        return 2
    return 0


def replay(doc):
    from sim import driver

    job = {"id": "r", "kind": "c12.scenarios", "scenarios": [doc["scenario"]], "shrink": False}
    res, _ = driver.run_simple([job], par=1, job_timeout=600)
    m = res.get("r", {})
    if "result" not in m:
        print("HARNESS-ERROR " + json.dumps(m)[:1500])
        return 2
    v = m["result"]["violation"]
    print("replay: " + json.dumps({k: v[k] for k in v if k != "scenario"} if v else None))
    return 1 if v and v["kind"] == doc["kind"] else 0


@world.job_kind("c12.cover_trigger")
def job_cover_trigger(job, scratch):
    """Analysis aid (not a check): which repository lines does a trigger run execute?"""
    mon = sys.monitoring
    tool = 3
    pkg = world.REPO_PKG_DIR
    hit = {}

    def on_line(code, line):
        fn = code.co_filename
        if fn.startswith(pkg):
            hit.setdefault(fn[len(pkg):], set()).add(line)
        return mon.DISABLE

    mon.use_tool_id(tool, "cover")
    mon.register_callback(tool, mon.events.LINE, on_line)
    mon.set_events(tool, mon.events.LINE)
    try:
        o = execute_run(dict(job["run"], entry="run_pdb2pqr"), scratch, 0, None, use_monitor=False)
    finally:
        mon.set_events(tool, 0)
        mon.register_callback(tool, mon.events.LINE, None)
        mon.free_tool_id(tool)
    return {"outcome": o["outcome"], "exc": o["exc"],
            "lines": {f: sorted(v) for f, v in sorted(hit.items())}}

"""C14 -- neighbour search returns every atom within range.

Two simulated systems (DESIGN.md section 5):
  5a  c14.component : the real cells.Cells driven by seeded add/remove/move/rebuild
                      histories, every query compared with a brute-force model;
  5b  c14.pipeline  : whole pdb2pqr runs; the same comparison is made at every
                      neighbour query the pipeline itself issues, against the live
                      atom set of the biomolecule.
Verdicts use only what a caller can observe: the list returned by get_near_cells.
"""

from __future__ import annotations

import json
import math
import os
import random

from sim import world

SIZES = (2, 5)


# =============================================================================== 5a
def _dist(a, b):
    dx = a[0] - b[0]
    dy = a[1] - b[1]
    dz = a[2] - b[2]
    return math.sqrt(dx * dx + dy * dy + dz * dz)


def _gen_coord(rng, size):
    r = rng.random()
    if r < 0.30:  # on / next to a cell boundary
        k = rng.randint(-4, 4)
        eps = rng.choice([0.0, 0.0, 1e-9, -1e-9, 1e-3, -1e-3, 0.5, -0.5])
        v = k * size + eps
        if v == 0.0 and rng.random() < 0.5:
            v = -0.0
        return v
    if r < 0.45:
        return rng.uniform(-1.0, 1.0)
    if r < 0.80:
        return round(rng.uniform(-12.0, 12.0), 3)
    if r < 0.90:
        return float(rng.randint(-12, 12))
    sign = rng.choice([-1.0, 1.0])
    if rng.random() < 0.2:
        # around 2**31 / 2**33 / 1e9: integer conversions that are not arbitrary-precision break here
        return sign * (rng.choice([2.0 ** 31, 2.0 ** 33, 1e9, 2.0 ** 24]) + rng.randint(-8, 8)
                       + rng.choice([0.0, 0.25, 0.5]))
    return sign * round(rng.uniform(1e4, 1e5), 3)


def _gen_point(rng, size, others):
    """A point; with probability 1/2 placed relative to an existing one so that the
    pair is just inside / on / just outside the cut-off, along 1-3 axes."""
    if others and rng.random() < 0.06:
        return list(rng.choice(others))  # two distinct atoms at exactly the same position
    if others and rng.random() < 0.5:
        base = rng.choice(others)
        f = rng.choice([0.999999, 1.0, 1.000001, 0.5, 0.9, 0.25])
        axes = rng.sample([0, 1, 2], rng.randint(1, 3))
        d = [0.0, 0.0, 0.0]
        for ax in axes:
            d[ax] = rng.choice([-1.0, 1.0])
        n = math.sqrt(sum(c * c for c in d))
        return [base[i] + d[i] / n * size * f for i in range(3)]
    if others and rng.random() < 0.3:
        base = rng.choice(others)
        return [base[i] + rng.uniform(-size, size) for i in range(3)]
    # whole point far away or near: keep the three axes in the same regime often
    if rng.random() < 0.15:
        sign = rng.choice([-1.0, 1.0])
        c = sign * round(rng.uniform(1e4, 1e5), 3)
        return [c + rng.uniform(-3, 3) for _ in range(3)]
    return [_gen_coord(rng, size) for _ in range(3)]


def gen_component_history(seed):
    """Explicit operation list; the PRNG is used for generation only."""
    rng = random.Random(seed)
    size = rng.choice(SIZES)
    natoms = rng.randint(2, 16)
    nops = rng.randint(1, 40)
    ops = [["new", size]]
    # query schedule: "all" = every live atom is queried after every operation;
    # "focus" = only one chosen atom is queried after every operation (consecutive queries
    # from the same cell with mutations in between -- what a scan loop in the optimiser does)
    focus_mode = rng.random() < 0.5
    coords = {}  # idx -> coords of live atoms (generator's own bookkeeping)
    known = {}  # idx -> coords of every atom ever created
    # start: a few atoms created + rebuild, like Debump.debump_biomolecule does
    ninit = rng.randint(0, natoms)
    for i in range(ninit):
        p = _gen_point(rng, size, list(coords.values()))
        coords[i] = p
        known[i] = p
        ops.append(["spawn", i, p])  # live but not registered until the rebuild
    if ninit:
        ops.append(["rebuild", size])
    nxt = ninit
    if focus_mode and coords:
        ops.append(["focus", rng.choice(sorted(coords))])
    for _ in range(nops):
        r = rng.random()
        live = sorted(coords)
        if focus_mode and live and rng.random() < 0.12:
            ops.append(["focus", rng.choice(live)])
        if (r < 0.25 and nxt < natoms) or not live:
            p = _gen_point(rng, size, list(coords.values()))
            coords[nxt] = p
            known[nxt] = p
            ops.append(["create", nxt, p])
            nxt += 1
            if nxt >= natoms and not live:
                natoms += 1
        elif r < 0.30 and live and nxt < natoms + 4:
            # a new atom made as a copy of an existing one (Atom(atom=src)), placed nearby,
            # unregistered (legal no-op remove) and then registered
            src = rng.choice(live)
            p = [coords[src][k] + rng.choice([0.0, 0.0, 0.4, -0.4, 1.5]) for k in range(3)]
            coords[nxt] = p
            known[nxt] = p
            ops.append(["clone", nxt, src, p])
            nxt += 1
        elif r < 0.42 and len(live) > 1:
            i = rng.choice(live)
            del coords[i]
            ops.append(["delete", i])
        elif r < 0.52 and set(known) - set(coords):
            # an atom that was taken out of the map earlier is put back (the same object):
            # remove_cell ... other operations and queries ... add_cell, as the optimiser
            # does around its scans -- at the same place, a little moved, or elsewhere
            i = rng.choice(sorted(set(known) - set(coords)))
            q = rng.random()
            if q < 0.5:
                p = list(known[i])
            elif q < 0.75:
                p = [known[i][k] + rng.choice([0.0, 1e-3, -1e-3, 0.3, -0.3]) for k in range(3)]
            else:
                p = _gen_point(rng, size, list(coords.values()))
            coords[i] = p
            known[i] = p
            ops.append(["readd", i, p])
        elif r < 0.85:
            i = rng.choice(live)
            if rng.random() < 0.5:
                # small displacement (torsion-scan like), often across a boundary
                p = [coords[i][k] + rng.choice([0.0, 1e-3, -1e-3, 0.3, -0.3, 1.1, -1.1,
                                                 size * 1.0, -size * 1.0])
                     for k in range(3)]
            else:
                p = _gen_point(rng, size, [c for j, c in coords.items() if j != i])
            coords[i] = p
            known[i] = p
            ops.append(["move", i, p])
        elif r < 0.93:
            newsize = size if rng.random() < 0.5 else rng.choice(SIZES)
            size = newsize
            ops.append(["rebuild", size])
        else:
            dead = sorted(set(known) - set(coords))
            if dead:
                ops.append(["noop_remove", rng.choice(dead)])
            else:
                ops.append(["rebuild", size])
    return ops


class IllegalHistory(Exception):
    """Raised when a (shrunk) candidate history is not one the call sites could produce."""


class _Bio:
    """What Cells.assign_cells needs from a biomolecule: .atoms"""

    def __init__(self, atoms):
        self.atoms = atoms


def run_component_history(ops, stats=None):
    """Execute one explicit history against the real Cells; return None or a
    discrepancy description.  No randomness here."""
    from pdb2pqr import cells as cells_mod
    from pdb2pqr.structures import Atom

    atoms = {}  # idx -> Atom (ever created)
    live = []  # idx list, in creation order (the 'biomolecule.atoms' order)
    cells = None
    size = None

    def cellidx(v, sz):
        return math.floor(v / sz)

    def mk(i, p, src=None):
        if src is not None:
            a = Atom(atom=src, type_="ATOM", residue=None)
        else:
            a = Atom(type_="ATOM")
        # few distinct names / serials on purpose: identity, not name, distinguishes atoms
        a.name = ("CA", "N", "O", "H")[i % 4]
        a.serial = i % 3
        a.res_seq = 1
        a.x, a.y, a.z = p
        atoms[i] = a
        return a

    pending = set()  # spawned, waiting for the rebuild that registers them
    focus = [None]

    def check(step):
        if pending:
            raise IllegalHistory("atoms spawned but never registered by a rebuild")
        nq = 0
        todo = live
        if focus[0] is not None and focus[0] in live:
            todo = [focus[0]]
        for i in todo:
            a = atoms[i]
            res = cells.get_near_cells(a)
            nq += 1
            pa = (a.x, a.y, a.z)
            got = []
            for b in res:
                if b is a:
                    return {"kind": "self-returned", "step": step, "query": i}
                if _dist(pa, (b.x, b.y, b.z)) < size:
                    got.append(b)
            gotids = [id(b) for b in got]
            if len(set(gotids)) != len(gotids):
                return {"kind": "duplicate", "step": step, "query": i}
            exp = [atoms[j] for j in live
                   if j != i and _dist(pa, (atoms[j].x, atoms[j].y, atoms[j].z)) < size]
            expids = {id(b) for b in exp}
            if set(gotids) != expids:
                missing = [j for j in live if id(atoms[j]) in expids - set(gotids)]
                ghosts = [next((j for j, x in atoms.items() if x is b), "?") for b in got
                          if id(b) not in expids]
                kind = "missing" if missing else "ghost"
                return {"kind": kind, "step": step, "query": i, "missing": missing,
                        "ghost": ghosts, "size": size,
                        "query_xyz": list(pa),
                        "missing_xyz": [[atoms[j].x, atoms[j].y, atoms[j].z] for j in missing]}
            if stats is not None and exp:
                for b in exp:
                    d = tuple(cellidx(getattr(b, ax), size) - cellidx(getattr(a, ax), size)
                              for ax in "xyz")
                    stats["dirs"].add(d)
        if stats is not None:
            stats["queries"] += nq
        return None

    for step, op in enumerate(ops):
        k = op[0]
        if k == "new":
            size = op[1]
            cells = cells_mod.Cells(size)
        elif k == "focus":
            focus[0] = op[1]
            continue
        elif k == "spawn":
            mk(op[1], op[2])
            live.append(op[1])
            pending.add(op[1])
            continue  # not registered yet; a rebuild follows
        elif k == "create":
            a = mk(op[1], op[2])
            live.append(op[1])
            cells.add_cell(a)
        elif k == "clone":
            if op[2] not in atoms:
                raise IllegalHistory("clone of an atom that does not exist")
            if op[2] in atoms:
                a = mk(op[1], op[3], src=atoms[op[2]])
                live.append(op[1])
                cells.remove_cell(a)  # never registered: must be a no-op
                cells.add_cell(a)
        elif k == "delete":
            if op[1] not in live or op[1] in pending:
                raise IllegalHistory("delete of an atom that is not registered")
            cells.remove_cell(atoms[op[1]])
            live.remove(op[1])
        elif k == "readd":
            if op[1] not in atoms or op[1] in live:
                raise IllegalHistory("re-adding needs an existing atom that is not registered")
            a = atoms[op[1]]
            a.x, a.y, a.z = op[2]
            live.append(op[1])
            cells.add_cell(a)
            if stats is not None:
                stats["readd"] = stats.get("readd", 0) + 1
        elif k == "move":
            if op[1] not in live or op[1] in pending:
                raise IllegalHistory("move of an atom that is not registered")
            if op[1] in live:
                a = atoms[op[1]]
                if stats is not None:
                    old = tuple(cellidx(v, size) for v in (a.x, a.y, a.z))
                    new = tuple(cellidx(v, size) for v in op[2])
                    if old != new:
                        stats["cross"] += 1
                    if any(v < 0 for v in op[2]):
                        stats["neg"] += 1
                    if any(v == 0.0 and math.copysign(1, v) < 0 for v in op[2]):
                        stats["negzero"] += 1
                    if any(v % size == 0 for v in op[2]):
                        stats["exact"] += 1
                    if any(abs(v) >= 1e4 for v in op[2]):
                        stats["far"] += 1
                cells.remove_cell(a)
                a.x, a.y, a.z = op[2]
                cells.add_cell(a)
        elif k == "rebuild":
            size = op[1]
            cells = cells_mod.Cells(size)
            cells.assign_cells(_Bio([atoms[i] for i in live]))
            pending.clear()
            if stats is not None:
                stats["rebuild"] += 1
        elif k == "noop_remove":
            if op[1] not in atoms or op[1] in live:
                raise IllegalHistory("no-op remove needs an existing, unregistered atom")
            cells.remove_cell(atoms[op[1]])
        bad = check(step)
        if bad:
            return bad
    return None


def run_component_history_safe(ops, stats=None):
    """An exception raised by the cell map during a legal history is itself a violation."""
    try:
        return run_component_history(ops, stats)
    except IllegalHistory:
        raise
    except Exception as e:  # noqa: BLE001
        import traceback
        tb = traceback.extract_tb(e.__traceback__)
        where = [f"{os.path.basename(f.filename)}:{f.lineno}" for f in tb][-2:]
        return {"kind": "exception", "exc": type(e).__name__, "text": str(e)[:200],
                "where": where}


def _violation_class(v):
    return v["kind"] if v else None


def shrink_component(ops, want):
    """ddmin over the op list (first op 'new' is kept), then coordinate simplification."""
    def fails(cand):
        try:
            return _violation_class(run_component_history_safe(cand)) == want
        except Exception:  # noqa: BLE001 - an ill-formed candidate is simply rejected
            return False

    head, body = ops[:1], ops[1:]
    n = 2
    while len(body) >= 2:
        chunk = max(1, len(body) // n)
        reduced = False
        for i in range(0, len(body), chunk):
            cand = body[:i] + body[i + chunk:]
            if cand and fails(head + cand):
                body = cand
                n = max(n - 1, 2)
                reduced = True
                break
        if not reduced:
            if chunk == 1:
                break
            n = min(len(body), n * 2)
    # simplify coordinates: try rounding
    for nd in (0, 1, 3):
        cand = [list(o) for o in body]
        for o in cand:
            if o[0] in ("spawn", "create", "move", "readd"):
                o[2] = [round(v, nd) for v in o[2]]
        if fails(head + cand):
            body = cand
            break
    return head + body


@world.job_kind("c14.component")
def job_component(job, scratch):
    """Generate and execute `count` histories starting at seed*1_000_003 + first."""
    base = job["seed"] * 1_000_003
    stats = {"queries": 0, "cross": 0, "neg": 0, "negzero": 0, "exact": 0, "far": 0,
             "rebuild": 0, "readd": 0, "dirs": set()}
    nontrivial = 0
    import hashlib
    sigs = []
    nops = 0
    first_sample = None
    for i in range(job["first"], job["first"] + job["count"]):
        ops = gen_component_history(base + i)
        nops += len(ops)
        c0, r0 = stats["cross"], stats["rebuild"]
        d0 = len(stats["dirs"])
        bad = run_component_history_safe(ops, stats)
        if first_sample is None:
            first_sample = ops
        if stats["cross"] > c0 or stats["rebuild"] > r0 + 1:
            nontrivial += 1
            sigs.append(hashlib.sha1(repr(ops).encode()).hexdigest()[:12])
        if bad:
            small = shrink_component(ops, bad["kind"])
            return {"violation": {"subcheck": "component", "class": bad["kind"],
                                  "seed": base + i, "detail": bad, "ops": small,
                                  "ops_full_len": len(ops)}}
    stats["dirs"] = sorted(stats["dirs"])
    return {"histories": job["count"], "ops": nops, "stats": stats,
            "nontrivial_sigs": sigs, "sample": first_sample}


@world.job_kind("c14.component_replay")
def job_component_replay(job, scratch):
    bad = run_component_history_safe(job["ops"])
    return {"violation": ({"subcheck": "component", "class": bad["kind"], "detail": bad,
                           "ops": job["ops"]} if bad else None)}


# =============================================================================== 5b
PIPE_ITEMS = [
    # (item, weight, allow_whole)
    ("cterm_hid.pdb", 3, True), ("5vav_cyclic_peptide.pdb", 2, True),
    ("1AJJ.pdb", 4, True), ("1BX8.pdb", 4, True), ("1K1I.pdb", 5, False),
    ("1A1P.pdb", 2, True), ("1QBS.pdb", 4, False), ("1US0.pdb", 4, False),
    ("1AFS.pdb", 4, False),
    ("cterm_hid_out.pqr", 1, True),  # a protonated structure fed back as input
]
FFS = ["AMBER", "PARSE", "CHARMM", "SWANSON", "TYL06", "PEOEPB"]


def _npoly(item):
    from sim import corpus
    return len(corpus.polymer_groups(corpus.residue_groups(
        corpus.first_model_lines(corpus.load(item)))))


def gen_pipeline_cfg(seed, big=False):
    rng = random.Random(seed)
    items = [(it, w, whole) for it, w, whole in PIPE_ITEMS]
    tot = sum(w for _, w, _ in items)
    r = rng.uniform(0, tot)
    for item, w, whole in items:
        r -= w
        if r <= 0:
            break
    cfg = {"item": item}
    if item.endswith(".pqr"):
        cfg["input_name"] = "in.pdb"
        argv = [f"--ff={rng.choice(FFS[:3])}"]
        if rng.random() < 0.6:
            argv += ["--titration-state-method=propka", f"--with-ph={rng.choice([2.0, 7.0, 12.0])}"]
        if rng.random() < 0.2:
            argv.append("--noopt")
        cfg["argv"] = argv
        return cfg
    npoly = _npoly(item)
    if not (whole and rng.random() < 0.3):
        n = rng.randint(4, 40 if big else 22)
        start = rng.randint(0, max(0, npoly - n))
        cfg["window"] = [start, n]
        cfg["waters"] = rng.choice([0, 0, 3, 8, 20, 40])
    nres = cfg["window"][1] if cfg.get("window") else npoly
    if rng.random() < 0.6:
        rot = [rng.uniform(-1, 1), rng.uniform(-1, 1), rng.uniform(-1, 1),
               rng.choice([rng.uniform(0, 360), 90.0, 180.0])]
        sh = rng.random()
        if sh < 0.25:
            shift = None
        elif sh < 0.45:
            shift = [0.0, 0.0, 0.0, "abs"]  # molecule straddles the origin
        elif sh < 0.65:
            shift = [float(rng.choice([-10, -5, 0, 5, 10, 20])) for _ in range(3)] + ["abs"]
        elif sh < 0.85:
            shift = [rng.choice([-900.0, 9000.0, 8990.0, -950.0]) for _ in range(3)] + ["abs"]
        else:
            shift = [round(rng.uniform(-30, 30), 3) for _ in range(3)]
        cfg["rigid"] = {"rot": rot, "shift": shift}
    if rng.random() < 0.5:
        cfg["damage"] = [[rng.randint(0, max(0, nres - 1)),
                          rng.choice(["keep_backbone", "drop_tail", "drop_tail"])]
                         for _ in range(rng.randint(1, 3))]
    if rng.random() < 0.15:
        cfg["damage"] = (cfg.get("damage") or []) + [[rng.randint(0, max(0, nres - 1)),
                                                       "drop_hydrogens"]]
    if rng.random() < 0.12 and nres >= 6:
        cfg["damage"] = (cfg.get("damage") or []) + [[rng.randint(1, nres - 3), "add_oxt"]]
    if rng.random() < 0.08:
        cfg["damage"] = (cfg.get("damage") or []) + [[rng.randint(0, max(0, nres - 1)),
                                                       rng.choice(["altloc", "icode"])]]
    if rng.random() < 0.10 and not cfg.get("damage"):
        cfg["damage"] = [[nres - 1, "add_oxt"]]  # complete structure: the repair pass is skipped
    ff = rng.choice(FFS[:3]) if rng.random() < 0.7 else rng.choice(FFS)
    argv = [f"--ff={ff}"]
    if rng.random() < 0.10:
        argv.append("--nodebump")
    if rng.random() < 0.12:
        argv.append("--noopt")
    if rng.random() < 0.10:
        argv.append("--drop-water")
    if rng.random() < 0.30:
        argv += ["--titration-state-method=propka",
                 f"--with-ph={rng.choice([1.0, 2.5, 4.0, 7.0, 9.5, 11.0, 13.0])}"]
    if ff == "PARSE" and rng.random() < 0.3:
        argv.append(rng.choice(["--neutraln", "--neutralc"]))
    if rng.random() < 0.08:
        lig = {"1US0.pdb": "1US0-ligand.mol2", "1QBS.pdb": "1QBS-ligand.mol2"}.get(
            item, "ethanol.mol2")
        cfg["lig_het"] = lig
        cfg["files"] = {"ligand": lig}
        argv.append("--ligand={ligand}")
    if rng.random() < 0.2 and nres >= 6:
        cfg["chains"] = rng.sample(["A", "B", "C", "X", "a", "1"], 2)
    if rng.random() < 0.12:
        # residues held fixed by a library user (every stride-th residue)
        stride = rng.choice([2, 3, 5])
        cfg["hold"] = [stride, rng.randrange(stride)]
    cfg["argv"] = argv
    return cfg


OPTIMISABLE = ("ASN", "GLN", "HIS", "SER", "THR", "TYR", "ASP", "GLU", "LYS", "ARG", "CYS")


def terminus_matrix_cfgs():
    """Deterministic pipeline workload: chain terminus (N / C) x optimisable residue type
    (flips, alcohols, carboxylic acids, ...) x protonation regime of the terminus (charged,
    neutral via --neutraln/--neutralc, neutral via PROPKA at pH 1 / 13), each terminal
    residue surrounded by waters.  Rare bookkeeping branches (HO of a neutral C-terminus,
    H2/H3 of an N-terminus, flipped or rotated terminal side chains) are reached by these
    conjunctions only, and a discrepancy needs a partner close enough to ask."""
    from sim import corpus

    opts = (["--ff=PARSE", "--neutralc"], ["--ff=PARSE", "--neutraln"],
            ["--ff=AMBER", "--titration-state-method=propka", "--with-ph=1.0"],
            ["--ff=PARSE", "--titration-state-method=propka", "--with-ph=13.0"],
            ["--ff=CHARMM"], ["--ff=PARSE", "--neutraln", "--neutralc", "--nodebump"])
    out = []
    for item in ("cterm_hid.pdb", "1AJJ.pdb", "1BX8.pdb", "1K1I.pdb", "1A1P.pdb", "1US0.pdb"):
        groups = corpus.polymer_groups(corpus.residue_groups(
            corpus.first_model_lines(corpus.load(item))))
        names = [g["resname"] for g in groups]
        seen = {}
        for i, nm in enumerate(names):
            if nm not in OPTIMISABLE or seen.get(nm, 0) >= 2:
                continue
            seen[nm] = seen.get(nm, 0) + 1
            for end in ("C", "N"):
                if end == "C":
                    start = max(0, i - 5)
                    n = i - start + 1
                    term = n - 1
                else:
                    start = i
                    n = min(6, len(names) - i)
                    term = 0
                if n < 3:
                    continue
                for k, o in enumerate(opts):
                    cfg = {"item": item, "window": [start, n], "waters": 4,
                           "solvate": [[term, 6]], "argv": list(o)}
                    if k % 3 == 2:
                        cfg["damage"] = [[term, "add_oxt"]] if end == "C" else []
                    if (len(out) + k) % 4 == 0:
                        cfg["hold"] = [2, (len(out) // 4) % 2]
                    out.append(cfg)
    return out


@world.job_kind("c14.pipeline")
def job_pipeline(job, scratch):
    from sim import cellmon, runner

    mon = cellmon.CellMonitor()
    mon.install()
    # the hold list is the one input of the optimisation stage that only a library user can
    # supply (main.py passes None at the call site): the harness stands in for that user and
    # substitutes a seeded list at the same call, through a class-level wrapper
    hold = job["cfg"].get("hold")
    orig_hold = None
    if hold:
        from pdb2pqr import biomolecule as _bm

        orig_hold = _bm.Biomolecule.hold_residues
        stride, off = hold

        def _hold(self, hlist):
            if not hlist:
                hlist = [(r.res_seq, r.chain_id, r.ins_code)
                         for i, r in enumerate(self.residues) if i % stride == off]
            return orig_hold(self, hlist)

        _bm.Biomolecule.hold_residues = _hold
    try:
        obs = runner.run_cfg(job["cfg"], scratch)
    finally:
        mon.uninstall()
        if orig_hold is not None:
            _bm.Biomolecule.hold_residues = orig_hold
    rep = mon.report()
    rep["outcome"] = obs["outcome"]
    rep["exc"] = obs["exc"]
    rep["exc_text"] = obs["exc_text"]
    return rep


# =========================================================================== driver
def finding_key(f):
    """Identity of a pipeline discrepancy: what is wrong and which code made it so."""
    return f"{f['kind']}|{f['site']}"


def _shrink_pipeline(run_one, cfg, key):
    """Greedy cfg minimisation; run_one(cfg) -> set of finding keys (fresh world)."""
    def still(c):
        return key in run_one(c)

    cur = dict(cfg)
    # 1. drop decorations
    for field in ("rigid", "damage", "rename", "waters", "solvate", "hold"):
        if cur.get(field):
            cand = {k: v for k, v in cur.items() if k != field}
            if still(cand):
                cur = cand
    # 2. drop options (never the force field)
    argv = list(cur.get("argv", []))
    i = 0
    while i < len(argv):
        if argv[i].startswith("--ff="):
            i += 1
            continue
        drop = 1
        if argv[i].startswith("--titration-state-method") and i + 1 < len(argv):
            drop = 2
        cand = dict(cur, argv=argv[:i] + argv[i + drop:])
        if still(cand):
            argv = cand["argv"]
            cur = cand
        else:
            i += drop
    # 3. shrink the residue window
    if not cur.get("window"):
        cand = dict(cur, window=[0, _npoly(cur["item"])])
        if still(cand):
            cur = cand
    while cur.get("window") and cur["window"][1] > 2:
        start, n = cur["window"]
        half = n // 2
        for cand_w in ([start, half], [start + n - half, half], [start + half // 2, n - half]):
            cand = dict(cur, window=cand_w)
            if still(cand):
                cur = cand
                break
        else:
            break
    return cur


def main(tier, seed):
    import time

    from sim import driver, evidence

    t0 = time.monotonic()
    quick = tier == "quick"
    n_comp_jobs = 96 if quick else 1600
    comp_per_job = 400
    n_pipe = 640 if quick else 24000
    deadline = t0 + (170 if quick else 45 * 60)
    known = evidence.load_known("C14")

    jobs = []
    for j in range(n_comp_jobs):
        jobs.append({"id": f"c{j}", "kind": "c14.component", "seed": seed,
                     "first": j * comp_per_job, "count": comp_per_job})
    pipe_cfgs = {}
    for i in range(n_pipe):
        s = seed * 1_000_003 + i
        cfg = gen_pipeline_cfg(s, big=not quick and i % 4 == 0)
        pipe_cfgs[f"p{i}"] = (s, cfg)
    matrix = terminus_matrix_cfgs()
    if quick:
        # a rotating fifth of the matrix per seed (stride coprime with the number of
        # option sets); thorough runs all of it
        matrix = matrix[seed % 5::5]
    for i, cfg in enumerate(matrix):
        pipe_cfgs[f"m{i}"] = (f"m{i}", cfg)
    # interleave so that both sub-checks progress even if the deadline cuts the batch
    pj = [{"id": k, "kind": "c14.pipeline", "cfg": v[1]} for k, v in pipe_cfgs.items()]
    order = []
    ci = 0
    step = max(1, len(pj) // max(1, len(jobs)))
    for i, job in enumerate(pj):
        if i % step == 0 and ci < len(jobs):
            order.append(jobs[ci])
            ci += 1
        order.append(job)
    order.extend(jobs[ci:])

    violations = []  # (kind, payload)
    harness_errors = []
    comp = {"readd": 0, "histories": 0, "ops": 0, "queries": 0, "cross": 0, "neg": 0, "negzero": 0,
            "exact": 0, "far": 0, "rebuild": 0, "dirs": set(), "nontrivial": set(),
            "sample": None}
    pipe = {"runs": 0, "ok": 0, "failed": 0, "queries": 0, "expected_pairs": 0,
            "adds": 0, "removes": 0, "moves_cross": 0, "coord_writes_registered": 0,
            "site_events": set(), "query_sites": {}, "discrepancies": {},
            "fail_types": {}, "samples": [], "nontrivial": set()}

    def on_result(name, msg):
        if "harness_error" in msg:
            harness_errors.append(msg)
            return
        res = msg["result"]
        jid = msg["id"]
        if jid.startswith("c"):
            if res.get("violation"):
                violations.append(("component", res["violation"]))
                return
            comp["histories"] += res["histories"]
            comp["ops"] += res["ops"]
            for k in ("queries", "cross", "neg", "negzero", "exact", "far", "rebuild", "readd"):
                comp[k] += res["stats"][k]
            comp["dirs"].update(tuple(d) for d in res["stats"]["dirs"])
            comp["nontrivial"].update(res["nontrivial_sigs"])
            if comp["sample"] is None:
                comp["sample"] = res["sample"]
        else:
            pipe["runs"] += 1
            pipe["ok" if res["outcome"] == "ok" else "failed"] += 1
            if res["outcome"] != "ok":
                pipe["fail_types"][res["exc"]] = pipe["fail_types"].get(res["exc"], 0) + 1
            st = res["stats"]
            for k in ("queries", "expected_pairs", "adds", "removes", "moves_cross",
                      "coord_writes_registered"):
                pipe[k] += st[k]
            pipe["site_events"].update(res["site_events"])
            for k, v in res["query_sites"].items():
                pipe["query_sites"][k] = pipe["query_sites"].get(k, 0) + v
            if st["queries"] and (st["removes"] or st["coord_writes_registered"]):
                pipe["nontrivial"].add(jid)
            if len(pipe["samples"]) < 3:
                pipe["samples"].append({"cfg": pipe_cfgs[jid][1], "outcome": res["outcome"],
                                        "stats": st})
            for f in res["findings"].values():
                key = finding_key(f)
                d = pipe["discrepancies"].setdefault(
                    key, {"count": 0, "runs": 0, "first_job": jid, "causes": {},
                          "witness": f["witness"]})
                d["count"] += f["count"]
                d["runs"] += 1
                d["causes"][f["cause"]] = d["causes"].get(f["cause"], 0) + f["count"]

    stop = lambda: bool(violations)  # noqa: E731
    with driver.ServerPool([("w", {"PYTHONHASHSEED": "0"}, 16)], job_timeout=240) as pool:
        results, skipped = pool.run({"w": order}, deadline=deadline, on_result=on_result,
                                    stop_flag=stop)
        unknown = sorted(k for k in pipe["discrepancies"] if k not in known)
        replay_paths = []
        # ---- minimise + write replay for anything not listed as a known finding
        for sub, v in violations[:1]:
            path = evidence.write_replay("C14", seed, {
                "subcheck": "component", "class": v["class"], "ops": v["ops"],
                "detail": v["detail"], "history_seed": v.get("seed")})
            replay_paths.append(path)
        cnt = [0]

        def run_one(cfg):
            cnt[0] += 1
            jid = f"s{cnt[0]}"
            r, _ = pool.run({"w": [{"id": jid, "kind": "c14.pipeline", "cfg": cfg}]})
            m = r["w"].get(jid, {})
            if "result" not in m:
                return set()
            return {finding_key(f) for f in m["result"]["findings"].values()}

        for key in unknown[:3]:
            d = pipe["discrepancies"][key]
            s, cfg = pipe_cfgs[d["first_job"]]
            small = _shrink_pipeline(run_one, cfg, key)
            path = evidence.write_replay("C14", s, {
                "subcheck": "pipeline", "class": key, "cfg": small, "cfg_original": cfg,
                "witness": d["witness"], "causes": d["causes"]},
                suffix="-" + str(abs(hash(key)) % 10000))
            replay_paths.append(path)

    wall = time.monotonic() - t0
    n_skipped = len(skipped["w"])
    known_seen = sorted(k for k in pipe["discrepancies"] if k in known)
    total_cases = comp["histories"] + pipe["runs"]
    coverage = {
        "evaluations": total_cases,
        "distinct_nontrivial": len(comp["nontrivial"]) + len(pipe["nontrivial"]),
        "rule": ("component: one case = one seeded history of <=40 create/delete/move/"
                 "rebuild/no-op-remove operations on the real cells.Cells (sizes 2 and 5) "
                 "with every live atom queried and compared with brute force after every "
                 "operation; non-trivial = distinct op list (sha1) containing a move that "
                 "crossed a cell boundary or a second rebuild.  pipeline: one case = one "
                 "whole pdb2pqr run (seeded corpus window, rigid transform, side-chain "
                 "damage, options) with every get_near_cells call compared with brute "
                 "force over biomolecule.atoms; non-trivial = distinct cfg in which the "
                 "pipeline issued queries after at least one remove_cell or coordinate "
                 "write on a registered atom."),
        "samples": [{"component_history": comp["sample"]}] + pipe["samples"],
        "simulated_runs": total_cases,
        "runs_per_hour": round(total_cases / wall * 3600),
        "seeds_per_hour": round(total_cases / wall * 3600),
        "simulated_time": "n/a - no clock is read by the code under test",
        "simulated_steps": comp["queries"] + pipe["queries"],
        "faults_fired": {},
        "faults_note": "no fault kind applies to C14 (no I/O, no failure clause); the "
                       "explored dimension is the history of index mutations",
        "component": {k: (sorted(v) if isinstance(v, set) and k == "dirs" else
                          (len(v) if isinstance(v, set) else v))
                      for k, v in comp.items() if k != "sample"},
        "reach_probes": {
            "component.move_crossed_cell_boundary": comp["cross"],
            "component.negative_coordinate_moves": comp["neg"],
            "component.negative_zero_coordinate": comp["negzero"],
            "component.exact_multiple_of_cellsize": comp["exact"],
            "component.far_from_origin": comp["far"],
            "component.neighbour_directions_covered_of_27": len(comp["dirs"]),
            "component.atom_re_registered_after_removal": comp["readd"],
            "pipeline.moves_crossing_cell_boundary": pipe["moves_cross"],
            "pipeline.coordinate_writes_on_registered_atoms": pipe["coord_writes_registered"],
            "pipeline.queries_compared": pipe["queries"],
            "pipeline.expected_pairs_checked": pipe["expected_pairs"],
        },
        "pipeline": {"runs": pipe["runs"], "ok": pipe["ok"], "failed": pipe["failed"],
                     "fail_types": pipe["fail_types"], "adds": pipe["adds"],
                     "removes": pipe["removes"],
                     "distinct_site_event_pairs": len(pipe["site_events"]),
                     "site_events": sorted(pipe["site_events"]),
                     "query_sites": pipe["query_sites"]},
        "distinct_states": {"measure": "distinct (call site x cell-map event kind) pairs "
                                       "exercised in pipeline runs + distinct non-trivial "
                                       "component histories",
                            "value": len(pipe["site_events"]) + len(comp["nontrivial"])},
        "components": {"real": ["pdb2pqr.cells.Cells", "pdb2pqr.structures.Atom",
                                "whole pdb2pqr pipeline incl. propka (pipeline sub-check)"],
                       "stub": ["biomolecule for the component sub-check: an object with "
                                "an .atoms list"]},
        "known_findings_seen": {k: pipe["discrepancies"][k]["count"] for k in known_seen},
        "unlisted_discrepancies": unknown,
        "jobs_skipped_by_deadline": n_skipped,
        "harness_errors": len(harness_errors),
        "exhaustive": False,
    }
    nviol = len(violations) + len(unknown)
    evidence.write_evidence(
        "C14", tier, seed, "exploration", coverage,
        ["brute force over biomolecule.atoms is the reference; float64 distances",
         "attribution (site) relies on harness-side wrappers; verdicts do not",
         "corpus contains proteins, waters and ligands only (no nucleic acids offline)"],
        wall, nviol)
    for k in known_seen:
        f = known[k]
        print(f"KNOWN-FINDING: property=C14 {k} -- {f.get('what', '')} "
              f"(seen {pipe['discrepancies'][k]['count']}x in {pipe['discrepancies'][k]['runs']} runs)")
    print(f"C14 {tier}: {comp['histories']} component histories ({comp['queries']} queries), "
          f"{pipe['runs']} pipeline runs ({pipe['queries']} queries), wall {wall:.0f}s, "
          f"skipped {n_skipped}, harness errors {len(harness_errors)}")
    if harness_errors:
        print("HARNESS-ERROR " + json.dumps(harness_errors[0])[:1500])
    if nviol:
        for p in replay_paths:
            print(f"VIOLATION property=C14 replay={p}")
        return 1
    if harness_errors or total_cases == 0:
        return 2
    return 0


def replay(doc):
    """Re-execute a replay file in a fresh server; exit 1 iff the same class recurs."""
    from sim import driver

    if doc["subcheck"] == "component":
        job = {"id": "r", "kind": "c14.component_replay", "ops": doc["ops"]}
    else:
        job = {"id": "r", "kind": "c14.pipeline", "cfg": doc["cfg"]}
    res, _ = driver.run_simple([job], par=1)
    m = res.get("r", {})
    if "result" not in m:
        print("HARNESS-ERROR " + json.dumps(m)[:1000])
        return 2
    if doc["subcheck"] == "component":
        v = m["result"]["violation"]
        got = v["class"] if v else None
        print(f"replay: component history -> {got}; detail: {json.dumps(v['detail']) if v else None}")
        return 1 if got == doc["class"] else 0
    keys = {finding_key(f): f for f in m["result"]["findings"].values()}
    hit = doc["class"] in keys
    print(f"replay: pipeline cfg -> discrepancies {sorted(keys)}")
    if hit:
        print("witness: " + json.dumps(keys[doc['class']]["witness"]))
    return 1 if hit else 0


@world.job_kind("c14.coverage")
def job_coverage(job, scratch):
    """Analysis aid (not a check): which lines of the files that touch the cell map does
    a cfg execute?  Each line event is disabled after its first hit, so this is cheap."""
    import sys as _sys

    from sim import runner

    mon = _sys.monitoring
    tool = 3
    pkg = world.REPO_PKG_DIR
    files = tuple(pkg + f for f in ("debump.py", "cells.py", "hydrogens/__init__.py",
                                    "hydrogens/structures.py", "hydrogens/optimize.py"))
    hit = set()

    def on_line(code, line):
        fn = code.co_filename
        if fn in files:
            hit.add((fn[len(pkg):], line))
        return mon.DISABLE

    mon.use_tool_id(tool, "cov")
    mon.register_callback(tool, mon.events.LINE, on_line)
    mon.set_events(tool, mon.events.LINE)
    try:
        obs = runner.run_cfg(job["cfg"], scratch)
    finally:
        mon.set_events(tool, 0)
        mon.register_callback(tool, mon.events.LINE, None)
        mon.free_tool_id(tool)
    return {"outcome": obs["outcome"], "lines": sorted(hit)}

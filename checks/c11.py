"""C11 -- runs are deterministic and independent of process history.

Reference model  F(cfg) = (status, sha256(PQR)) : cfg run alone in a pristine world,
under several hash seeds / allocators -- all variants must agree.
Simulated system : one world (one interpreter, fixed hash seed) executing a seeded
history of runs (fault-free, fault-aborted, failing), other public API calls and heap
perturbation; every fault-free run in the history must reproduce F(cfg).
See DESIGN.md section 3.
"""

from __future__ import annotations

import gc
import json
import os
import random

from sim import corpus, runner, world

FFS = ["AMBER", "PARSE", "CHARMM", "SWANSON", "TYL06", "PEOEPB"]

# ============================================================================ cfg pool
ITEMS = [
    # item, n polymer residues (filled lazily), weight
    ("cterm_hid.pdb", 4), ("5vav_cyclic_peptide.pdb", 2), ("1AJJ.pdb", 4), ("1BX8.pdb", 4),
    ("1K1I.pdb", 3), ("1A1P.pdb", 2), ("1US0.pdb", 3), ("1QBS.pdb", 2),
]


def _npoly(item):
    return len(corpus.polymer_groups(corpus.residue_groups(
        corpus.first_model_lines(corpus.load(item)))))


STRUCTURE_KEYS = ("item", "window", "waters", "damage", "rename", "chains", "input_name",
                  "lig_het", "lig_resname", "lig_drop_h", "bad_records", "renumber",
                  "water_name", "columns", "dimer_same_id", "sym_waters", "dup_water")


TITRATABLE = ("LYS", "ASP", "GLU", "HIS", "TYR", "CYS", "ARG")
_resname_cache = {}


def _poly_resnames(item):
    if item not in _resname_cache:
        _resname_cache[item] = [g["resname"] for g in corpus.polymer_groups(
            corpus.residue_groups(corpus.first_model_lines(corpus.load(item))))]
    return _resname_cache[item]


def _residue_ids(cfg):
    """chain:resnum labels of the polymer residues of a cfg's structure (PROPKA syntax)."""
    text = corpus.structure_text({k: v for k, v in cfg.items() if k in STRUCTURE_KEYS})
    out = []
    for g in corpus.polymer_groups(corpus.residue_groups(text.splitlines())):
        chain, resseq = g["key"][0], g["key"][1][:4].strip()
        if chain.strip() and resseq.lstrip("-").isdigit():
            out.append(f"{chain}:{resseq}")
    return out


def gen_cfg(rng, structure=None):
    """A small, fast cfg; axes chosen to differ where runs could share state.  With
    `structure` the structure fields are taken from that cfg (a *sibling*: same input
    bytes, different options), which is what stresses caches keyed on too little."""
    r = rng.random()
    if structure is None and r < 0.06:
        return {"item": "1FAS.cif", "argv": [f"--ff={rng.choice(FFS)}"]}
    if structure is None and r < 0.10:
        return {"item": "cterm_hid_out.pqr", "input_name": "in.pdb",
                "argv": [f"--ff={rng.choice(FFS[:3])}"] + (["--assign-only"] if rng.random() < 0.5 else [])}
    if structure is not None:
        cfg = {k: structure[k] for k in STRUCTURE_KEYS if k in structure}
        item = cfg["item"]
        if item.endswith((".cif", ".pqr")):
            cfg["argv"] = [f"--ff={rng.choice(FFS)}"]
            return cfg
        npoly = _npoly(item)
        nres = cfg["window"][1] if cfg.get("window") else npoly
    else:
        tot = sum(w for _, w in ITEMS)
        x = rng.uniform(0, tot)
        for item, w in ITEMS:
            x -= w
            if x <= 0:
                break
        cfg = {"item": item}
        npoly = _npoly(item)
        whole_ok = item in ("cterm_hid.pdb", "5vav_cyclic_peptide.pdb")
        if not (whole_ok and rng.random() < 0.5):
            n = rng.randint(4, 14)
            start = rng.randint(0, max(0, npoly - n))
            if rng.random() < 0.5:
                # termini x titratable residues: a window that ends (or starts) at one
                names = _poly_resnames(item)
                tit = [i for i, nm in enumerate(names) if nm in TITRATABLE]
                if tit:
                    t = rng.choice(tit)
                    start = max(0, t - n + 1) if rng.random() < 0.6 else min(t, max(0, npoly - n))
            cfg["window"] = [start, n]
            cfg["waters"] = rng.choice([0, 0, 4, 10])
        nres = cfg["window"][1] if cfg.get("window") else npoly
        if rng.random() < 0.3:
            cfg["damage"] = [[rng.randint(0, nres - 1), rng.choice(["drop_tail", "keep_backbone"])]
                             for _ in range(rng.choice([1, 1, 2]))]
        if rng.random() < 0.25:
            cfg["rename"] = [[rng.randint(0, nres - 1),
                              rng.choice(["HID", "HIE", "HIP", "ASH", "GLH", "LYN", "CYM", "HSD",
                                      "HSE", "HSP", "TYM"])]]
        r = rng.random()
        if r < 0.4 and nres >= 6:
            k = rng.choice([2, 2, 3]) if nres >= 9 else 2
            cfg["chains"] = rng.sample(["A", "B", "C", "D", "X", "Q", "a", "b", "1", "2", " "], k)
            if rng.random() < 0.15:
                cfg["chains"][-1] = cfg["chains"][0]  # two chains with the same id, TER between
        elif r < 0.5:
            cfg["chains"] = [" "]  # no chain ids at all: pdb2pqr has to invent them
        if rng.random() < 0.15 and nres >= 6:
            cfg["damage"] = (cfg.get("damage") or []) + [[rng.randint(1, nres - 3), "add_oxt"]]
        # three sulfurs within bonding range (ambiguous disulfide partner): ties are where
        # identity / address based ordering shows
        wstart = cfg["window"][0] if cfg.get("window") else 0
        wnames = _poly_resnames(item)[wstart:wstart + nres]
        cys = [i for i, nm in enumerate(wnames) if nm in ("CYS", "CYX", "CYM")]
        if len(cys) >= 3 and rng.random() < 0.5:
            a, b = rng.sample(cys, 2)
            cfg["damage"] = (cfg.get("damage") or []) + [[a, f"sg_near:{b}"]]
        if rng.random() < 0.12:
            cfg["damage"] = (cfg.get("damage") or []) + [[rng.randint(0, nres - 1), "altloc"]]
        if rng.random() < 0.10:
            cfg["damage"] = (cfg.get("damage") or []) + [[rng.randint(0, nres - 1), "icode"]]
        if rng.random() < 0.10:
            cfg["bad_records"] = sorted(rng.sample(range(11), rng.randint(1, 4)))
        if rng.random() < 0.15 and not cfg.get("chains"):
            # OXT on the last residue: no heavy atom is missing, so the repair pass is skipped
            cfg["damage"] = (cfg.get("damage") or []) + [[nres - 1, "add_oxt"]]
        if rng.random() < 0.06 and not cfg.get("chains"):
            cfg["dimer_same_id"] = True
        if rng.random() < 0.06:
            cfg["dup_water"] = True  # two atoms at distance zero (degenerate numerics)
        if rng.random() < 0.06:
            cfg["damage"] = (cfg.get("damage") or []) + [[rng.randint(0, nres - 1), "coincide"]]
        if rng.random() < 0.08:
            # exact geometric ties (symmetric water groups)
            cfg["sym_waters"] = rng.choice([2, 4, 8])
        if rng.random() < 0.12:
            cfg["renumber"] = rng.choice([-40, -300, 9000, 5000, 1])
        if cfg.get("waters") and rng.random() < 0.2:
            cfg["water_name"] = "WAT"
        if rng.random() < 0.12:
            cfg["columns"] = rng.choice(["blank", "zero_occ", "segid", "noelement"])
    argv = []
    r = rng.random()
    if r < 0.12:
        argv += ["--userff={userff}", "--usernames={usernames}"]
        cfg["files"] = {"userff": "custom-ff.dat", "usernames": "custom.names"}
        ff = None
    else:
        ff = rng.choice(FFS)
        argv.append(f"--ff={ff}")
    if ff and rng.random() < 0.25:
        argv.append(f"--ffout={rng.choice(FFS[:5])}")
    propka_p = 0.3
    if structure is not None and any(a.startswith("--titration") for a in structure.get("argv", [])):
        propka_p = 0.8
    if rng.random() < propka_p:
        argv += ["--titration-state-method=propka",
                 f"--with-ph={rng.choice([1.0, 2.0, 4.5, 7.0, 9.0, 12.0, 13.5])}"]
        k = rng.random()
        if k < 0.25:
            ids = _residue_ids(cfg)
            if ids:
                argv.append("--titrate_only=" + ",".join(
                    sorted(rng.sample(ids, min(len(ids), rng.randint(1, 4))))))
        elif k < 0.45:
            argv.append("--parameters={propkacfg}")
            cfg.setdefault("files", {})["propkacfg"] = "propka-alt.cfg"
        elif k < 0.55:
            argv.append(f"--reference={rng.choice(['low-pH', 'high-pH'])}")
    if ff == "PARSE":
        if rng.random() < 0.4:
            argv.append("--neutraln")
        if rng.random() < 0.4:
            argv.append("--neutralc")
    r = rng.random()
    if r < 0.08:
        argv.append("--clean")
    elif r < 0.14 and ff:
        argv.append("--assign-only")
    for opt, p in (("--nodebump", 0.12), ("--noopt", 0.12), ("--drop-water", 0.12),
                   ("--whitespace", 0.2), ("--keep-chain", 0.3), ("--include-header", 0.1)):
        if rng.random() < p:
            argv.append(opt)
    if rng.random() < 0.12:
        argv.append("--pdb-output={pdbout}")
    if rng.random() < 0.08:
        argv.append("--apbs-input={apbsout}")
    if rng.random() < 0.15 and ff:
        argv.append("--ligand={ligand}")
        lig = rng.choice(["1US0-ligand.mol2", "1QBS-ligand.mol2", "ethanol.mol2", "adp.mol2"])
        cfg.setdefault("files", {})["ligand"] = lig
        if rng.random() < 0.75:
            # hetero atoms for the ligand path to parameterise
            cfg["lig_het"] = lig
            cfg["lig_resname"] = rng.choice(["LIG", "LDT", "DMP"])
    if rng.random() < 0.08:
        cfg["input_mode"] = "pdbid"
    cfg["argv"] = argv
    return cfg


def one_axis_sibling(rng, base):
    """A cfg that differs from `base` along exactly one option axis (same structure).
    Two runs that differ in a single axis are what exposes state keyed on too little."""
    cfg = json.loads(json.dumps(base))
    argv = list(cfg.get("argv", []))
    if cfg["item"].endswith((".cif", ".pqr")):
        cfg["argv"] = [f"--ff={rng.choice(FFS)}"]
        return cfg
    has = lambda pfx: any(a.startswith(pfx) for a in argv)  # noqa: E731

    def drop(pfx):
        return [a for a in argv if not a.startswith(pfx)]

    propka = has("--titration-state-method")
    axes = ["ff", "flag", "flag"]
    if propka:
        axes += ["ph", "ph", "titrate_only", "titrate_only", "parameters", "parameters",
                 "reference", "nopropka"]
    else:
        axes += ["propka"]
    if has("--ff="):
        axes += ["ffout", "userff", "ligand"]
    if has("--userff"):
        axes += ["userff-content", "userff-content", "userff-content"]
    if cfg.get("lig_het"):
        axes += ["lig-h", "lig-h", "noligand", "noligand"]
    ax = rng.choice(axes)
    if ax == "ff" and has("--ff="):
        cur = [a for a in argv if a.startswith("--ff=")][0]
        new = rng.choice([f for f in FFS if f"--ff={f}" != cur])
        argv = [f"--ff={new}" if a == cur else a for a in argv]
        if new != "PARSE":
            argv = [a for a in argv if a not in ("--neutraln", "--neutralc")]
    elif ax == "flag":
        flag = rng.choice(["--nodebump", "--noopt", "--drop-water", "--whitespace",
                           "--keep-chain", "--include-header"])
        argv = drop(flag) if flag in argv else argv + [flag]
    elif ax == "ph":
        argv = drop("--with-ph") + [f"--with-ph={rng.choice([1.0, 2.0, 3.5, 10.5, 12.0, 13.5])}"]
    elif ax == "titrate_only":
        ids = _residue_ids(cfg)
        argv = drop("--titrate_only")
        if ids:
            argv.append("--titrate_only=" + ",".join(
                sorted(rng.sample(ids, min(len(ids), rng.randint(1, 3))))))
    elif ax == "parameters":
        if has("--parameters"):
            argv = drop("--parameters")
            (cfg.get("files") or {}).pop("propkacfg", None)
        else:
            argv.append("--parameters={propkacfg}")
            cfg.setdefault("files", {})["propkacfg"] = "propka-alt.cfg"
    elif ax == "reference":
        argv = drop("--reference") + [f"--reference={rng.choice(['low-pH', 'high-pH'])}"]
    elif ax == "nopropka":
        argv = [a for a in argv if not a.startswith(("--titration", "--with-ph", "--titrate_only",
                                                     "--parameters", "--reference"))]
        (cfg.get("files") or {}).pop("propkacfg", None)
    elif ax == "propka":
        argv += ["--titration-state-method=propka",
                 f"--with-ph={rng.choice([2.0, 4.5, 7.0, 12.0])}"]
    elif ax == "ffout":
        argv = drop("--ffout") + ([] if has("--ffout") else [f"--ffout={rng.choice(FFS[:5])}"])
    elif ax == "userff":
        argv = drop("--ff=") + ["--userff={userff}", "--usernames={usernames}"]
        argv = [a for a in argv if not a.startswith("--ffout") and a not in (
            "--neutraln", "--neutralc")]
        cfg.setdefault("files", {}).update({"userff": "custom-ff.dat",
                                            "usernames": "custom.names"})
    elif ax == "lig-h":
        # the ligand's hetero atoms with / without hydrogens (without: the usual PDB case,
        # which makes the ligand charge non-integral and the run fail at the charge check)
        if cfg.get("lig_drop_h"):
            cfg.pop("lig_drop_h")
        else:
            cfg["lig_drop_h"] = True
    elif ax == "noligand":
        # same hetero atoms in the structure, but no --ligand (or with it again)
        if has("--ligand"):
            argv = drop("--ligand")
            (cfg.get("files") or {}).pop("ligand", None)
        else:
            argv.append("--ligand={ligand}")
            cfg.setdefault("files", {})["ligand"] = cfg["lig_het"]
    elif ax == "userff-content":
        # same file name, different (still valid, still neutral) parameters: a radius tweak
        fc = dict(cfg.get("file_content") or {})
        if "userff" in fc:
            fc.pop("userff")
        else:
            res, atom, old_r = rng.choice([("ALA\tCB\t-0.182500\t", "1.9080", None),
                                           ("GLY\tCA\t-0.025200\t", "1.9080", None),
                                           ("LYS\tCE\t-0.014300\t", "1.9080", None),
                                           ("SER\tCB\t0.211700\t", "1.9080", None)])
            fc["userff"] = {"kind": "replace", "old": res + atom, "new": res + "2.2222"}
        if fc:
            cfg["file_content"] = fc
        else:
            cfg.pop("file_content", None)
    elif ax == "ligand" and not has("--ligand"):
        lig = rng.choice(["1US0-ligand.mol2", "ethanol.mol2"])
        argv.append("--ligand={ligand}")
        cfg.setdefault("files", {})["ligand"] = lig
    cfg["argv"] = argv
    if not cfg.get("files"):
        cfg.pop("files", None)
    return cfg


SWEEP_OPTION_SETS = [
    ["--ff=AMBER"], ["--ff=AMBER", "--noopt"], ["--ff=AMBER", "--nodebump"],
    ["--ff=PARSE", "--noopt", "--nodebump"], ["--ff=AMBER", "--drop-water"],
    ["--ff=AMBER", "--titration-state-method=propka", "--with-ph=2.0"],
    ["--ff=PARSE", "--neutraln", "--neutralc"], ["--ff=CHARMM", "--ffout=AMBER"],
]


def abort_matrix_families(seed, quick):
    """Structures with waters and some damage (so that debumping and water optimisation have
    work to do) x option sets that select different stage implementations.  Every member
    is used as the aborted cfg of an abort sweep, the *other* members as the runs that
    follow the aborts -- 'a failed run of configuration O changes a later run of O''."""
    rng = random.Random(seed * 17 + 3)
    structs = [{"item": "1AJJ.pdb", "window": [rng.randint(0, 20), 12], "waters": 10,
                "damage": [[rng.randint(0, 11), "drop_tail"]]}]
    if not quick:
        structs += [{"item": "1BX8.pdb", "window": [rng.randint(0, 35), 12], "waters": 12}]
        structs += [{"item": "1K1I.pdb", "window": [rng.randint(0, 150), 14], "waters": 14,
                     "damage": [[3, "drop_tail"], [9, "keep_backbone"]]},
                    {"item": "1US0.pdb", "window": [rng.randint(0, 280), 12], "waters": 12,
                     "lig_het": "1US0-ligand.mol2"}]
    fams = []
    for st in structs:
        fam = [dict(st, argv=list(o)) for o in SWEEP_OPTION_SETS]
        if st.get("lig_het"):
            fam.append(dict(st, argv=["--ff=AMBER", "--ligand={ligand}"],
                            files={"ligand": st["lig_het"]}))
        fams.append(fam)
    return fams


def feature_families(seed, quick):
    """Deterministic families for rare *geometric* situations in which a tie has to be
    broken -- where ordering by object identity / address or by insertion history shows."""
    import math as _m

    fams = []
    for item in ("1AJJ.pdb", "1BX8.pdb") + (() if quick else ("1K1I.pdb",)):
        groups = corpus.polymer_groups(corpus.residue_groups(
            corpus.first_model_lines(corpus.load(item))))
        sg = {}
        for i, g in enumerate(groups):
            if g["resname"] == "CYS":
                for l in g["lines"]:
                    if l[12:16].strip() == "SG":
                        sg[i] = corpus._xyz(l)
        bonded = [(a, b) for a in sg for b in sg if a < b and _m.dist(sg[a], sg[b]) < 2.5]
        for a, b in bonded[: (1 if quick else 3)]:
            third = next((c for c in sorted(sg) if c not in (a, b)), None)
            if third is None:
                continue
            st = {"item": item, "damage": [[third, f"sg_near:{a}"]]}
            lo = min(a, b, third)
            hi = max(a, b, third)
            if hi - lo < 24:
                st["window"] = [max(0, lo - 1), hi - lo + 3]
                st["damage"] = [[third - st["window"][0], f"sg_near:{a - st['window'][0]}"]]
            fams.append([dict(st, argv=o) for o in (
                ["--ff=AMBER"], ["--ff=PARSE", "--nodebump"], ["--ff=AMBER", "--noopt"],
                ["--ff=CHARMM", "--titration-state-method=propka", "--with-ph=7.0"])])
    # input kinds: different readers / record types one after the other
    kinds = [{"item": "1A1P.pdb"}, {"item": "1FAS.cif"},
             {"item": "cterm_hid_out.pqr", "input_name": "in.pdb"}, {"item": "cterm_hid.pdb"},
             {"item": "1AJJ.pdb", "chains": [" "]}, {"item": "1AJJ.pdb"},
             {"item": "cterm_hid.pdb", "lig_het": "ethanol.mol2"},
             {"item": "5vav_cyclic_peptide.pdb"},
             {"item": "cterm_hid.pdb", "bad_records": True},
             {"item": "1AJJ.pdb", "window": [2, 12], "dimer_same_id": True},
             {"item": "1BX8.pdb", "window": [8, 10], "dimer_same_id": True},
             {"item": "1BX8.pdb"},
             {"item": "cterm_hid.pdb", "sym_waters": 8},
             {"item": "1AJJ.pdb", "window": [4, 8], "sym_waters": 5, "waters": 4},
             {"item": "1AJJ.pdb", "window": [0, 12], "waters": 8, "water_name": "WAT",
              "renumber": -40, "columns": "blank"},
             {"item": "1BX8.pdb", "window": [10, 12], "renumber": 9000, "columns": "segid",
              "chains": ["A", "B", "A"]},
             {"item": "1AJJ.pdb", "window": [2, 12], "bad_records": [0, 3, 6, 9]},
             {"item": "1BX8.pdb", "window": [3, 20], "chains": ["B", "A"],
              "damage": [[4, "add_oxt"], [9, "altloc"], [12, "icode"]]}]
    fams.append([dict(k, argv=["--ff=AMBER"]) for k in kinds])
    if not quick:
        fams.append([dict(k, argv=["--ff=PARSE", "--keep-chain", "--include-header"])
                     for k in kinds])
    # naming / parameter assignment: one structure under every naming scheme
    for st in ({"item": "1AJJ.pdb", "window": [3, 16], "waters": 6}, {"item": "cterm_hid.pdb"}):
        fam = [dict(st, argv=[f"--ff={ff}"]) for ff in FFS]
        fam += [dict(st, argv=["--ff=PARSE", "--neutraln", "--neutralc"]),
                dict(st, argv=["--ff=AMBER", "--ffout=CHARMM"]),
                dict(st, argv=["--ff=CHARMM", "--ffout=AMBER"]),
                dict(st, argv=["--ff=PARSE", "--ffout=TYL06", "--neutraln"]),
                dict(st, argv=["--ff=SWANSON", "--ffout=PARSE"]),
                dict(st, argv=["--userff={userff}", "--usernames={usernames}"],
                     files={"userff": "custom-ff.dat", "usernames": "custom.names"}),
                # the same user force-field file name with different (valid) content
                dict(st, argv=["--userff={userff}", "--usernames={usernames}"],
                     files={"userff": "custom-ff.dat", "usernames": "custom.names"},
                     file_content={"userff": {"kind": "replace",
                                              "old": "GLY\tCA\t-0.025200\t1.9080",
                                              "new": "GLY\tCA\t-0.025200\t2.2222"}}),
                dict(st, argv=["--userff={userff}", "--usernames={usernames}"],
                     files={"userff": "custom-ff.dat", "usernames": "custom.names"},
                     file_content={"userff": {"kind": "replace",
                                              "old": "ALA\tCB\t-0.182500\t1.9080",
                                              "new": "ALA\tCB\t-0.182500\t2.3333"}}),
                dict(st, argv=["--ff=AMBER", "--assign-only"]),
                dict(st, argv=["--clean"])]
        fams.append(fam)
        if quick:
            break
    fams.append(canary_cfgs())
    fams.append(trigger_family())
    return fams


def trigger_family():
    """The must-fail configurations of C12's catalogue (those that are a pure cfg: no
    injected fault, no special state of the output path) as one family, interleaved with
    healthy runs on the same structures.  Whether a run is *rejected* must be as
    independent of history as its output: a validation result memoised from a healthy run
    (or a barrier disarmed by an earlier failure) shows as a status that differs from the
    fresh-world reference."""
    from checks import c12

    healthy = [{"item": "cterm_hid.pdb", "argv": ["--ff=PARSE", "--noopt"]},
               {"item": "1AJJ.pdb", "window": [0, 20], "argv": ["--ff=PARSE", "--noopt"]},
               {"item": "1AJJ.pdb", "window": [0, 20], "argv": ["--ff=AMBER"]},
               {"item": "cterm_hid.pdb", "argv": ["--ff=AMBER", "--nodebump", "--noopt"]}]
    fam = list(healthy)
    seen = {corpus.cfg_key(c) for c in fam}
    n = 0
    for sc in c12.trigger_scenarios(quick=True):
        run = sc["runs"][0]
        if run.get("faults") or sc.get("pre") == "directory":
            continue
        k = corpus.cfg_key(run["cfg"])
        if k in seen:
            continue
        seen.add(k)
        fam.append(run["cfg"])
        n += 1
        if n % 12 == 0:
            # a healthy run again every dozen triggers (same structures, other options)
            h = dict(healthy[(n // 12) % len(healthy)])
            h["argv"] = h["argv"] + ["--whitespace"]
            if corpus.cfg_key(h) not in seen:
                seen.add(corpus.cfg_key(h))
                fam.append(h)
    return fam


def canary_cfgs():
    """Runs that succeed but pass through degenerate numerics (two atoms at distance zero:
    0/0 in normalisation and angle code, silently NaN).  Their outcome is the first to
    change when an earlier run leaves process-global state of the numeric library or of the
    warnings machinery behind (np.seterr, warning filters turned into errors, ...), so they
    also serve as the follow-up run of every abort sweep."""
    return [
        {"item": "1AJJ.pdb", "window": [0, 10], "waters": 4, "dup_water": True,
         "argv": ["--ff=AMBER"]},
        {"item": "1AJJ.pdb", "window": [0, 10], "waters": 4, "dup_water": True,
         "argv": ["--ff=AMBER", "--noopt"]},
        {"item": "1BX8.pdb", "window": [5, 12], "damage": [[3, "coincide"], [7, "coincide"]],
         "argv": ["--ff=PARSE", "--nodebump", "--noopt"]},
        {"item": "1BX8.pdb", "window": [5, 12], "damage": [[3, "coincide"], [7, "coincide"]],
         "argv": ["--ff=PARSE", "--nodebump"]},
        # the same degenerate structures on paths where they fail (status must not change)
        {"item": "1AJJ.pdb", "window": [10, 10], "damage": [[5, "coincide"]],
         "argv": ["--ff=AMBER"]},
        {"item": "cterm_hid.pdb", "dup_water": True, "argv": ["--ff=PARSE"]},
    ]


def titration_matrix_families(seed):
    """Deterministic families covering terminus x titratable residue x pH extreme x force
    field: for every titratable residue type a window that ENDS at such a residue and one
    that STARTS at one, each run with PROPKA at pH 1 and 13.5 under several force fields.
    State that depends on (protonation state x chain position x force field) is only
    reached by these conjunctions; random drawing hits them too rarely."""
    rng = random.Random(seed * 31 + 5)
    fams = []
    items = ["1AJJ.pdb", "1BX8.pdb", "1K1I.pdb", "1US0.pdb", "1QBS.pdb", "cterm_hid.pdb"]
    for t in TITRATABLE:
        for where in ("C", "N"):
            cands = []
            for it in items:
                names = _poly_resnames(it)
                cands += [(it, i) for i, nm in enumerate(names) if nm == t]
            if not cands:
                continue
            it, i = cands[rng.randrange(len(cands))]
            n = 6
            npoly = _npoly(it)
            start = max(0, i - n + 1) if where == "C" else min(i, max(0, npoly - n))
            if where == "N" and start != i:
                continue
            struct = {"item": it, "window": [start, n], "waters": 0}
            fam = []
            for ff, ph in (("PARSE", 13.5), ("AMBER", 13.5), ("AMBER", 1.0), ("CHARMM", 1.0),
                           ("SWANSON", 13.5), ("TYL06", 1.0)):
                fam.append(dict(struct, argv=[f"--ff={ff}", "--titration-state-method=propka",
                                              f"--with-ph={ph}"]))
            fams.append(fam)
    return fams


FAILING_CFGS = [
    {"item": "cterm_hid.pdb", "argv": ["--ff=AMBER", "--with-ph=15"]},
    {"item": "cterm_hid.pdb", "argv": ["--ff=AMBER", "--neutraln"]},
    {"item": "cterm_hid.pdb", "content": {"kind": "html"}, "argv": ["--ff=PARSE"]},
    {"item": "cterm_hid.pdb", "content": {"kind": "empty"}, "argv": ["--ff=PARSE"]},
    {"item": "cterm_hid.pdb", "content": {"kind": "short", "at": 2500}, "argv": ["--ff=CHARMM"]},
    {"item": "cterm_hid.pdb", "input_mode": "missing", "input_name": "nosuch.pdb",
     "argv": ["--ff=AMBER"]},
    {"item": "cterm_hid.pdb", "argv": ["--userff={userff}"], "files": {"userff": "custom-ff.dat"}},
    {"item": "1AJJ.pdb", "window": [0, 16], "damage": [[i, "keep_backbone"] for i in range(16)],
     "argv": ["--ff=AMBER"]},
    {"item": "1BX8.pdb", "window": [5, 10],
     "argv": ["--userff={userff}", "--usernames={usernames}"],
     "files": {"userff": "custom-ff.dat", "usernames": "custom.names"},
     "file_content": {"userff": {"kind": "replace", "old": "GLY\tCA\t", "new": "GLY\tCA\t0.4"}}},
    {"item": "cterm_hid.pdb", "rename": [[i, "XXX"] for i in range(14)], "argv": ["--ff=AMBER"]},
]

STAGE_NAMES = [
    "main.py:transform_arguments", "main.py:check_files", "io.py:get_definitions",
    "io.py:get_molecule", "main.py:setup_molecule", "biomolecule.py:Biomolecule.set_termini",
    "biomolecule.py:Biomolecule.update_bonds", "main.py:non_trivial",
    "forcefield.py:Forcefield.__init__", "hydrogens/__init__.py:create_handler",
    "biomolecule.py:Biomolecule.repair_heavy", "biomolecule.py:Biomolecule.update_ss_bridges",
    "debump.py:Debump.debump_biomolecule", "main.py:run_propka",
    "biomolecule.py:Biomolecule.apply_pka_values", "biomolecule.py:Biomolecule.add_hydrogens",
    "hydrogens/__init__.py:HydrogenRoutines.set_optimizeable_hydrogens",
    "hydrogens/__init__.py:HydrogenRoutines.initialize_full_optimization",
    "hydrogens/__init__.py:HydrogenRoutines.optimize_hydrogens",
    "hydrogens/__init__.py:HydrogenRoutines.cleanup", "biomolecule.py:Biomolecule.set_states",
    "biomolecule.py:Biomolecule.apply_force_field",
    "biomolecule.py:Biomolecule.apply_name_scheme", "io.py:print_pqr_header",
    "io.py:print_biomolecule_atoms", "main.py:print_pqr",
]

API_CALLS = ["get_definitions", "forcefield", "create_handler", "mol2", "psize", "read_pqr",
             "debump_api", "parser", "get_molecule", "forcefield_userff", "setup_ligand",
             "parser_reuse_defaults", "inputgen"]


CLOCKS = [
    946_684_800.0,      # 2000-01-01 00:00:00 UTC (the reference worlds' epoch)
    951_782_399.5,      # 2000-02-28 23:59:59.5  (crosses midnight during the run)
    1_709_251_199.0,    # 2024-02-29 23:59:59    (leap day, month boundary)
    2_147_483_646.0,    # 2038-01-19 03:14:06    (32-bit rollover during the run)
    1_234_567_890.0, 4_102_444_799.9, 86_399.2, 1_790_000_000.0,
]


def gen_ambient(rng):
    """Things the PQR must not depend on (C11: a function of input files and options only)."""
    amb = {"clock": rng.choice(CLOCKS) + rng.choice([0.0, 0.0, 3600.0 * rng.randint(1, 9000)])}
    r = rng.random()
    if r < 0.3:
        amb["cwd"] = "scratch"
        amb["rel"] = rng.random() < 0.7
    elif r < 0.5:
        amb["cwd"] = "root"
    if rng.random() < 0.3:
        amb["tz"] = rng.choice(["UTC", "Pacific/Kiritimati", "America/St_Johns", "Asia/Kathmandu"])
    if rng.random() < 0.2:
        amb["lang"] = rng.choice(["C", "POSIX", "de_DE.UTF-8", "tr_TR.UTF-8", "C.UTF-8"])
    if rng.random() < 0.35:
        amb["in_name"] = rng.choice(["1ABC", "structure.final.v2", "a", "INPUT", "x y",
                                     "zzzzzzzzzzzzzzzzzzzzzzzzzzzzzzzzzzzz", "9xyz_model-1"])
    if rng.random() < 0.3:
        amb["out_name"] = rng.choice(["result.pqr", "OUT.PQR", "o", "out.final.pqr", "x y.pqr",
                                      "1abc_amber_ph7.pqr"])
    if rng.random() < 0.2:
        amb["junk"] = True
    return amb


def gen_history(seed, pool):
    rng = random.Random(seed)
    mine = rng.sample(range(len(pool)), min(len(pool), rng.randint(2, 5)))
    nops = rng.randint(4, 16)
    ops = []
    done = []  # pool indices already run fault-free
    for _ in range(nops):
        r = rng.random()
        if r < 0.12:
            ops.append({"op": "api", "call": rng.choice(API_CALLS), "arg": rng.randrange(6)})
            continue
        if r < 0.17:
            ops.append({"op": "perturb", "n": rng.choice([1000, 20000, 200000]),
                        "gc": rng.random() < 0.5})
            continue
        if r < 0.27:
            ops.append({"op": "run", "cfg": rng.choice(FAILING_CFGS), "ref": "fail",
                        "entry": rng.choice(["run_pdb2pqr", "main_driver"])})
            continue
        # a run of a pool cfg; half of the time a revisit of something already run
        if done and rng.random() < 0.5:
            ci = rng.choice(done)
        else:
            ci = rng.choice(mine)
        if r < 0.45:
            # fault-aborted run
            k = rng.random()
            if k < 0.45:
                f = {"k": "exc", "event": "PY_START", "at": rng.randint(1, 60000),
                     "exc": rng.choice(["MemoryError", "KeyboardInterrupt", "RecursionError"])}
            elif k < 0.85:
                f = {"k": "stage", "stage": rng.choice(STAGE_NAMES), "occ": 1,
                     "when": rng.choice(["entry", "return"]),
                     "exc": rng.choice(["ValueError", "MemoryError"])}
            else:
                f = {"k": "io", "op": "read", "path_label": rng.choice(
                    ["input", "dat/AA.xml", "dat/PATCHES.xml", "dat/HYDROGENS.xml",
                     "dat/AMBER.DAT", "dat/PARSE.names"]), "n": rng.randint(1, 3), "errno": 5}
            ops.append({"op": "run", "cfg_index": ci, "faults": [f],
                        "entry": rng.choice(["run_pdb2pqr", "main_driver"])})
            continue
        entry = rng.choice(["run_pdb2pqr", "run_pdb2pqr", "main_driver", "main_driver_reuse"])
        op = {"op": "run", "cfg_index": ci, "entry": entry}
        if entry != "main_driver_reuse" and rng.random() < 0.35:
            op["stable"] = True
        if entry != "main_driver_reuse" and rng.random() < 0.6:
            op["ambient"] = gen_ambient(rng)
        ops.append(op)
        done.append(ci)
    # make sure the history is non-trivial: at least one revisit after something else
    if done:
        ops.append({"op": "run", "cfg_index": done[0], "entry": "run_pdb2pqr"})
    return ops


# ============================================================================ world side
def _api(call, arg, scratch):
    """Other public entry points exercised between runs ("other runs" in C11's sense)."""
    from pdb2pqr import debump, forcefield, hydrogens, io as pio, psize
    from pdb2pqr.ligand.mol2 import Mol2Molecule
    from pdb2pqr import main as main_mod

    if call == "get_definitions":
        pio.get_definitions()
    elif call == "forcefield":
        d = pio.get_definitions()
        forcefield.Forcefield(FFS[arg % 6].lower(), d, None, None)
    elif call == "create_handler":
        hydrogens.create_handler()
    elif call == "mol2":
        name = ["1US0-ligand.mol2", "1QBS-ligand.mol2", "ethanol.mol2", "adp.mol2"][arg % 4]
        m = Mol2Molecule()
        with open(os.path.join(corpus.CORPUS_DIR, name), encoding="utf-8") as fh:
            m.read(fh)
        m.assign_parameters()
    elif call == "psize":
        p = psize.Psize()
        path = os.path.join(corpus.CORPUS_DIR, "cterm_hid_out.pqr")
        p.parse_input(path)
        p.run_psize(path)
    elif call == "read_pqr":
        with open(os.path.join(corpus.CORPUS_DIR, "dx2cube.pqr")) as fh:
            pio.read_pqr(fh)
    elif call == "debump_api":
        # build a biomolecule through the documented pieces and score a residue
        d = pio.get_definitions()
        path = os.path.join(scratch, "api-in.pdb")
        with open(path, "w") as fh:
            fh.write(corpus.load("cterm_hid.pdb"))
        pdblist, _ = pio.get_molecule(path)
        bio, d, _ = main_mod.setup_molecule(pdblist, d, None)
        bio.set_termini(neutraln=False, neutralc=False)
        bio.update_bonds()
        deb = debump.Debump(bio)
        deb.get_bump_score(bio.residues[arg % len(bio.residues)])
    elif call == "parser":
        main_mod.build_main_parser().parse_args(["--ff=AMBER", "a.pdb", "b.pqr"])
    elif call == "parser_reuse_defaults":
        # parse with list-valued / tuple-valued PROPKA options and then mutate the result,
        # the way a caller post-processing a Namespace might
        ns = main_mod.build_main_parser().parse_args(
            ["--ff=PARSE", "--titrate_only=A:1,A:2", "-w", "1", "12", "0.5", "a.pdb", "b.pqr"])
        for v in vars(ns).values():
            if isinstance(v, list):
                v.append("x")
    elif call == "get_molecule":
        path = os.path.join(scratch, "api-mol.pdb")
        with open(path, "w") as fh:
            fh.write(corpus.load(["cterm_hid.pdb", "1AJJ.pdb", "5vav_cyclic_peptide.pdb"][arg % 3]))
        pdblist, _ = pio.get_molecule(path)
        for rec in pdblist[:50]:
            if hasattr(rec, "chain_id"):
                rec.chain_id = "Z"  # a caller editing the records it was handed
    elif call == "forcefield_userff":
        d = pio.get_definitions()
        forcefield.Forcefield(None, d, os.path.join(corpus.CORPUS_DIR, "custom-ff.dat"),
                              os.path.join(corpus.CORPUS_DIR, "custom.names"))
    elif call == "setup_ligand":
        d = pio.get_definitions()
        text = corpus.structure_text({"item": "cterm_hid.pdb", "lig_het": "ethanol.mol2"})
        path = os.path.join(scratch, "api-lig.pdb")
        with open(path, "w") as fh:
            fh.write(text)
        pdblist, _ = pio.get_molecule(path)
        bio, d, lig = main_mod.setup_molecule(
            pdblist, d, os.path.join(corpus.CORPUS_DIR, "ethanol.mol2"))
        lig.assign_parameters()
    elif call == "inputgen":
        from pdb2pqr import inputgen
        path = os.path.join(corpus.CORPUS_DIR, "cterm_hid_out.pqr")
        p = psize.Psize()
        p.parse_input(path)
        p.run_psize(path)
        inputgen.Input(path, p, "mg-auto", 0, potdx=True)


@world.job_kind("c11.history")
def job_history(job, scratch):
    from checks import c12

    pool = job["pool"]
    ns_cache = {}
    obs = []
    # optional heap offset for the whole world (replays of address-dependent violations
    # carry the offset under which they were confirmed to reproduce)
    world_junk = [[object() for _ in range(997)] for _ in range(int(job.get("junk", 0)) // 997)]
    junk = []
    for i, op in enumerate(job["ops"]):
        if op["op"] == "api":
            try:
                _api(op["call"], op.get("arg", 0), scratch)
                obs.append({"op": "api", "ok": True})
            except BaseException as e:  # noqa: BLE001
                obs.append({"op": "api", "ok": False, "exc": type(e).__name__})
            continue
        if op["op"] == "perturb":
            junk.append([object() for _ in range(op["n"])])
            if len(junk) > 2:
                junk.pop(0)
            if op.get("gc"):
                gc.collect()
            obs.append({"op": "perturb"})
            continue
        cfg = op.get("cfg") or pool[op["cfg_index"]]
        entry = op.get("entry", "run_pdb2pqr")
        if entry == "main_driver_reuse":
            key = "reuse-" + runner.sha(corpus.cfg_key(cfg).encode())[:12]
            scdir = os.path.join(scratch, key)
            outdir = os.path.join(scdir, "out")
            idx = 0
            try:
                os.remove(os.path.join(outdir, "out.pqr"))
            except OSError:
                pass
        elif op.get("stable"):
            # same paths, new contents: inputs are overwritten in place between runs
            scdir = os.path.join(scratch, "stable")
            outdir = os.path.join(scdir, "out")
            idx = 0
            c12.world_cleanup(os.path.join(scdir, "in-0"))
            c12.world_cleanup(outdir)
        else:
            scdir = os.path.join(scratch, f"op-{i}")
            outdir = None
            idx = 0
        os.makedirs(scdir, exist_ok=True)
        o = c12.execute_run({"cfg": cfg, "entry": entry, "faults": op.get("faults"),
                             "ambient": op.get("ambient")},
                            scdir, idx, None, outdir=outdir, use_monitor=False,
                            ns_cache=ns_cache)
        data = runner.read_bytes(o["paths"]["output"])
        obs.append({"op": "run", "outcome": o["outcome"], "exc": o["exc"],
                    "sha": runner.sha(data), "len": len(data) if data is not None else None,
                    "fired": len(o["fired"]), "fired_kinds": sorted(
                        {(f.get("kind") or f["k"]) for f in o["fired"]})})
        if entry != "main_driver_reuse" and not op.get("stable"):
            c12.world_cleanup(scdir)
    return {"obs": obs}


def _child_spans(note_fd, cfg, scdir):
    from checks import c12
    from sim import monitor

    # a run under the step counter only to learn where each stage starts and ends
    o = c12.execute_run({"cfg": cfg, "entry": "run_pdb2pqr", "profile": True}, scdir, 0, note_fd)
    return {"outcome": o["outcome"], "spans": o["profile"]["stage_spans"],
            "n_start": o["n_start"]}


@world.job_kind("c11.abort_sweep")
def job_abort_sweep(job, scratch):
    """For one cfg A: abort a run of A in the *middle* of every stage (where a temporary
    override made at the start of the stage has not been undone yet), each time followed
    by a normal run of a cfg B, all in one interpreter.  The B runs are compared with the
    fresh-world references by the driver."""
    from checks import c12
    from sim import forkrun

    A = job["cfg"]
    others = job["others"]
    pdir = os.path.join(scratch, "spans")
    os.makedirs(pdir, exist_ok=True)
    cr = forkrun.forked(_child_spans, A, pdir, timeout=300)
    fin = cr.final()
    if fin is None:
        raise RuntimeError(f"span profile died: {cr.error()}")
    obs = []
    ops = []
    spans = [sp for sp in fin["spans"] if sp[2] - sp[1] >= 3]
    # one instant in the middle of EVERY stage (early and late stages alike); instants near
    # the end of long stages are added only as far as the budget allows
    instants = [(name, (a + b) // 2) for name, a, b in spans]
    extra = [(name, b - 2) for name, a, b in spans if b - a > 40]
    room = max(0, job.get("max_aborts", 60) - len(instants))
    if room and extra:
        step = max(1, len(extra) // room)
        instants += extra[(job.get("seed", 0) % step)::step][:room]
    for k, (name, at) in enumerate(instants):
        exc = ("MemoryError", "KeyboardInterrupt", "RecursionError", "ValueError")[k % 4]
        f = {"k": "exc", "event": "PY_START", "at": at, "exc": exc}
        scdir = os.path.join(scratch, f"a{k}")
        os.makedirs(scdir, exist_ok=True)
        o = c12.execute_run({"cfg": A, "entry": "run_pdb2pqr", "faults": [f]}, scdir, 0, None,
                            use_monitor=False)
        ops.append({"op": "run", "cfg": A, "faults": [f], "stage": name})
        # (if the instant is never reached -- the run got shorter -- the run completes and is
        # then held to the reference like any other run, so its real output is recorded)
        adata = runner.read_bytes(o["paths"]["output"])
        obs.append({"op": "run", "outcome": o["outcome"], "exc": o["exc"],
                    "sha": runner.sha(adata), "len": len(adata) if adata is not None else None,
                    "fired": len(o["fired"]), "fired_kinds": ["exc"] if o["fired"] else []})
        c12.world_cleanup(scdir)
        B = others[k % len(others)]
        scdir = os.path.join(scratch, f"b{k}")
        os.makedirs(scdir, exist_ok=True)
        o = c12.execute_run({"cfg": B, "entry": "run_pdb2pqr"}, scdir, 0, None, use_monitor=False)
        data = runner.read_bytes(o["paths"]["output"])
        ops.append({"op": "run", "cfg": B})
        obs.append({"op": "run", "outcome": o["outcome"], "exc": o["exc"], "sha": runner.sha(data),
                    "len": len(data) if data is not None else None, "fired": 0, "fired_kinds": []})
        c12.world_cleanup(scdir)
    return {"obs": obs, "ops": ops, "stages": len(spans)}


@world.job_kind("c11.cover")
def job_cover(job, scratch):
    """Which repository lines does a cfg execute?  (Each line event is disabled after its
    first hit, so this costs little more than the run.)  Used to choose a pool of cfgs
    that reaches as many branches as possible; never part of a verdict."""
    import sys as _sys

    mon = _sys.monitoring
    tool = 3
    pkg = world.REPO_PKG_DIR
    hit = {}

    def on_line(code, line):
        fn = code.co_filename
        if fn.startswith(pkg):
            hit.setdefault(fn[len(pkg):], set()).add(line)
        return mon.DISABLE

    from checks import c12

    mon.use_tool_id(tool, "cover")
    mon.register_callback(tool, mon.events.LINE, on_line)
    mon.set_events(tool, mon.events.LINE)
    try:
        o = c12.execute_run({"cfg": job["cfg"], "entry": "run_pdb2pqr"}, scratch, 0, None,
                            use_monitor=False)
    finally:
        mon.set_events(tool, 0)
        mon.register_callback(tool, mon.events.LINE, None)
        mon.free_tool_id(tool)
    return {"outcome": o["outcome"], "lines": {f: sorted(v) for f, v in sorted(hit.items())}}


@world.job_kind("c11.ref")
def job_ref(job, scratch):
    from checks import c12

    # heap perturbation before the run: object addresses (hence the iteration order of
    # sets / dicts keyed by identity-hashed objects) differ between reference variants
    junk = [[object() for _ in range(997)] for _ in range(int(job.get("junk", 0)) // 997)]
    if job.get("junk_free"):
        del junk[::2]

    o = c12.execute_run({"cfg": job["cfg"], "entry": "run_pdb2pqr"}, scratch, 0, None,
                        use_monitor=False)
    data = runner.read_bytes(o["paths"]["output"])
    return {"outcome": o["outcome"], "exc": o["exc"], "sha": runner.sha(data),
            "len": len(data) if data is not None else None}


# ============================================================================ driver
COLD_SCRIPT = r'''
import sys, json, os, hashlib, logging
sys.path.insert(0, sys.argv[1]); sys.path.insert(0, sys.argv[2])
logging.disable(logging.CRITICAL)
from sim import corpus
cfg = json.loads(sys.argv[3]); scratch = sys.argv[4]
argv, paths = corpus.materialise(cfg, os.path.join(scratch, "in"), os.path.join(scratch, "out"))
from pdb2pqr.main import run_pdb2pqr
out = "ok"
try:
    run_pdb2pqr(argv)
except BaseException as e:
    out = "fail"
try:
    data = open(paths["output"], "rb").read(); sha = hashlib.sha256(data).hexdigest()
except OSError:
    sha = None
print(json.dumps({"outcome": out, "sha": sha}))
'''


def compare_history(ops, obs, pool, refs):
    """First op whose observable result departs from the reference model, or None."""
    for i, (op, o) in enumerate(zip(ops, obs)):
        if op["op"] != "run":
            continue
        if op.get("faults") and o.get("fired"):
            continue  # the aborted run itself has no reference; later ops still do
        cfg = op.get("cfg") or pool[op["cfg_index"]]
        ref = refs.get(corpus.cfg_key(cfg))
        if ref is None:
            continue
        if o["outcome"] != ref["outcome"]:
            return {"kind": "history-dependent-status", "op_index": i,
                    "got": o["outcome"], "want": ref["outcome"], "exc": o.get("exc")}
        if o["outcome"] == "ok" and o["sha"] != ref["sha"]:
            return {"kind": "history-dependent-output", "op_index": i, "got_sha": o["sha"],
                    "want_sha": ref["sha"], "got_len": o.get("len"), "want_len": ref.get("len")}
    return None


def main(tier, seed):
    import subprocess
    import time

    from sim import driver, evidence

    t0 = time.monotonic()
    quick = tier == "quick"
    rng = random.Random(seed * 7919 + 17)
    n_pool = 84 if quick else 600
    n_hist = 100 if quick else 6000
    deadline = t0 + (200 if quick else 45 * 60)
    # ---- coverage-guided choice of base cfgs: draw many candidates, run each once under a
    # cheap line-coverage probe, and keep greedily those that reach repository lines no
    # earlier pick reached (rare branches are where in-place mutations of shared state
    # hide); the rest of the pool is filled with further random candidates.
    n_cand = 260 if quick else 2400
    cands = []
    cseen = set()
    while len(cands) < n_cand:
        c = gen_cfg(rng)
        k = corpus.cfg_key(c)
        if k not in cseen:
            cseen.add(k)
            cands.append(c)
    cover_stats = {"candidates": n_cand, "lines_reached": 0, "picked_for_coverage": 0}
    picked = []
    try:
        cres, _ = driver.run_simple(
            [{"id": f"v{i}", "kind": "c11.cover", "cfg": c} for i, c in enumerate(cands)],
            par=16, env_extra={"PYTHONHASHSEED": "0"}, job_timeout=300,
            deadline=t0 + (60 if quick else 600))
        cov = {}
        for i in range(n_cand):
            m = cres.get(f"v{i}", {})
            if "result" in m:
                cov[i] = {(f, ln) for f, lns in m["result"]["lines"].items() for ln in lns}
        covered = set()
        remaining = dict(cov)
        while remaining:
            best = max(sorted(remaining), key=lambda i: len(remaining[i] - covered))
            gain = len(remaining[best] - covered)
            if gain == 0:
                break
            covered |= remaining.pop(best)
            picked.append(best)
        cover_stats["lines_reached"] = len(covered)
        cover_stats["picked_for_coverage"] = len(picked)
    except driver.HarnessError:
        picked = []
    order = picked + [i for i in range(n_cand) if i not in set(picked)]
    base_iter = iter([cands[i] for i in order])
    # the pool is made of families: a base cfg plus 1-2 siblings on the same structure
    pool = []
    families = []
    seen = set()
    while len(pool) < n_pool:
        base = next(base_iter, None) or gen_cfg(rng)
        fam = []
        sibs = [one_axis_sibling(rng, base)]
        if rng.random() < 0.5:
            sibs.append(one_axis_sibling(rng, sibs[0]))
        if rng.random() < 0.3:
            sibs.append(gen_cfg(rng, structure=base))
        for c in [base] + sibs:
            k = corpus.cfg_key(c)
            if k not in seen:
                seen.add(k)
                fam.append(len(pool))
                pool.append(c)
        if fam:
            families.append(fam)
    n_pool_random = len(pool)
    abort_fams = []
    for fam_cfgs in abort_matrix_families(seed, quick):
        fam = []
        for c in fam_cfgs:
            k = corpus.cfg_key(c)
            if k not in seen:
                seen.add(k)
                fam.append(len(pool))
                pool.append(c)
        if fam:
            families.append(fam)
            abort_fams.append(fam)
    n_pool_random = len(pool)
    for fam_cfgs in titration_matrix_families(seed) + feature_families(seed, quick):
        fam = []
        for c in fam_cfgs:
            k = corpus.cfg_key(c)
            if k not in seen:
                seen.add(k)
                fam.append(len(pool))
                pool.append(c)
        if fam:
            families.append(fam)
    n_pool = len(pool)
    # each history sees two or three whole families (keeps job messages small)
    hists = []
    # family sweeps: every ordered pair of same-structure, one-axis-apart cfgs occurs
    # (A B C C B A), systematically rather than by luck
    for fi, fam in enumerate(families):
        if len(fam) < 2:
            continue
        r3 = random.Random(seed * 1_000_003 + 777 + fi)
        order = list(range(len(fam)))
        r3.shuffle(order)
        sub = [pool[i] for i in fam]
        ops = [{"op": "run", "cfg_index": j, "entry": "run_pdb2pqr"} for j in order + order[::-1]]
        if fi % 2 or any(c.get("file_content") for c in sub):
            # in place: same paths, new contents (always for families whose members differ
            # only in the CONTENT of an auxiliary file)
            for op in ops:
                op["stable"] = True
        for op in ops[len(ops) // 2:]:
            op["ambient"] = gen_ambient(r3)
        # one parsed Namespace handed to main_driver twice in a row (consumable state in the
        # Namespace: file handles, iterators, lists that a run empties) -- systematically for
        # families with a ligand, and for every third family otherwise
        if fi % 3 == 0 or any(any(a.startswith("--ligand") for a in c.get("argv", [])) for c in sub):
            for j in order[:4]:
                ops += [{"op": "run", "cfg_index": j, "entry": "main_driver_reuse"},
                        {"op": "run", "cfg_index": j, "entry": "main_driver_reuse"}]
        hists.append({"id": f"hf{fi}", "kind": "c11.history", "seed": seed * 1_000_003 + 777 + fi,
                      "ops": ops, "pool": sub})
    for h in range(n_hist):
        hs = seed * 1_000_003 + h
        r2 = random.Random(hs ^ 0x5EED)
        sub = sorted(i for f in r2.sample(families, min(len(families), 3)) for i in f)[:8]
        subpool = [pool[i] for i in sub]
        ops = gen_history(hs, subpool)
        hists.append({"id": f"h{h}", "kind": "c11.history", "seed": hs, "ops": ops,
                      "pool": subpool})
    # grand tours: a seeded permutation of a chunk of the pool, then the same chunk in
    # reverse order.  For any two cfgs A, B of a chunk, A runs before some run of B (in the
    # forward pass or in the reverse pass), so every ordered cross-structure pair is
    # exercised once per tour -- a leak from A into B needs no luck within a chunk.
    r4 = random.Random(seed * 1_000_003 + 4242)
    matrix_idx = [i for i, c in enumerate(pool) if i >= n_pool_random]
    rest_idx = [i for i in range(n_pool_random)]
    r4.shuffle(matrix_idx)
    r4.shuffle(rest_idx)
    chunks = [matrix_idx[i:i + 48] for i in range(0, len(matrix_idx), 48)]
    chunks += [rest_idx[i:i + 40] for i in range(0, len(rest_idx), 40)]
    if not quick:
        # thorough: additional tours over mixed chunks
        both = matrix_idx + rest_idx
        for rep in range(6):
            r4.shuffle(both)
            chunks += [both[i:i + 60] for i in range(0, len(both), 60)]
    for ti, ch in enumerate(chunks):
        if len(ch) < 2:
            continue
        sub = [pool[i] for i in ch]
        order = list(range(len(ch)))
        ops = [{"op": "run", "cfg_index": j, "entry": "run_pdb2pqr"} for j in order + order[::-1]]
        if ti % 2 == 0:
            # every other tour starts with all the other public API calls ("a library user
            # who loads definitions, parses a ligand, builds a parser ... before running")
            calls = list(API_CALLS)
            r4.shuffle(calls)
            ops = [{"op": "api", "call": c, "arg": r4.randrange(6)} for c in calls] + ops
        hists.append({"id": f"ht{ti}", "kind": "c11.history", "seed": seed * 1_000_003 + 9000 + ti,
                      "ops": ops, "pool": sub})
    # abort sweeps: cfgs chosen for coverage (they exercise the most distinct code) are
    # aborted in the middle of every stage, each abort followed by a normal run
    sweep_bases = [cands[i] for i in picked[: (4 if quick else 40)]]
    pool_keys = {corpus.cfg_key(c): i for i, c in enumerate(pool)}
    canaries = [c for c in canary_cfgs()[:4] if corpus.cfg_key(c) in pool_keys]
    n_sweeps = 0
    for si, A in enumerate(sweep_bases):
        if corpus.cfg_key(A) not in pool_keys:
            continue
        fam = next((f for f in families if pool_keys[corpus.cfg_key(A)] in f), [])
        others = [A] + [pool[i] for i in fam if pool[i] is not A][:1] + [
            pool[matrix_idx[(si * 7) % len(matrix_idx)]]] if matrix_idx else [A]
        others = others + canaries[si % 2::2]
        hists.append({"id": f"ha{si}", "kind": "c11.abort_sweep", "seed": seed * 1_000_003 + 5000 + si,
                      "cfg": A, "others": others, "max_aborts": 25 if quick else 80,
                      "ops": [None] * 80, "pool": []})
        n_sweeps += 1
    for fi, fam in enumerate(abort_fams):
        for mi, ai in enumerate(fam):
            others = [pool[fam[(mi + d) % len(fam)]] for d in (1, 2, 3)] + [pool[ai]] + \
                canaries[(fi + mi) % 2::2]
            hists.append({"id": f"ham{fi}_{mi}", "kind": "c11.abort_sweep",
                          "seed": seed * 1_000_003 + 7000 + fi * 50 + mi, "cfg": pool[ai],
                          "others": others, "max_aborts": 20 if quick else 80,
                          "ops": [None] * 72, "pool": []})
            n_sweeps += 1
    # long jobs first
    hists.sort(key=lambda h: (-len(h["ops"]), h["id"]))
    hs_values = [0, 4242] if quick else [0, 4242, 1, 99991, 2**31 - 5, 31337]
    third = (seed * 2654435761 + 12345) % 4294967295
    servers = [(f"H{v}", {"PYTHONHASHSEED": str(v)}, 6 if quick else 3) for v in hs_values]
    servers.append(("M", {"PYTHONHASHSEED": str(third), "PYTHONMALLOC": "malloc"}, 4 if quick else 2))
    ref_cfgs = {}
    for c in pool + FAILING_CFGS:
        ref_cfgs[corpus.cfg_key(c)] = c
    ref_ids = {k: f"r{i}" for i, k in enumerate(sorted(ref_cfgs))}

    def ref_jobs(si=0):
        junk = [0, 60_000, 400_000, 7_000, 1_500_000, 150_000, 30_000][si % 7]
        for k in sorted(ref_cfgs):
            yield {"id": ref_ids[k], "kind": "c11.ref", "cfg": ref_cfgs[k], "junk": junk,
                   "junk_free": bool(si % 2)}

    jobs_by_server = {}
    hist_servers = [s[0] for s in servers[:2]] if quick else [s[0] for s in servers[:-1]]
    for si, (name, _, _) in enumerate(servers):
        seq = list(ref_jobs(si))
        if name in hist_servers:
            # twin execution: every history runs under two different hash seeds
            k = hist_servers.index(name)
            mine = [h for i, h in enumerate(hists)
                    if quick or i % (len(hist_servers) // 2) == k % (len(hist_servers) // 2)]
            seq = seq + mine
        jobs_by_server[name] = seq
    harness_errors = []

    def on_result(name, msg):
        if "harness_error" in msg:
            harness_errors.append((name, msg))

    violations = []
    replay_paths = []
    unconfirmed_paths = set()
    with driver.ServerPool(servers, job_timeout=600) as pool_srv:
        results, skipped = pool_srv.run(jobs_by_server, deadline=deadline, on_result=on_result)
        # ---- reference model: all variants must agree
        refs = {}
        ref_variants = 0
        for k in sorted(ref_cfgs):
            vals = {}
            for name in jobs_by_server:
                m = results[name].get(ref_ids[k])
                if m and "result" in m:
                    vals[name] = (m["result"]["outcome"], m["result"]["sha"])
                    ref_variants += 1
            if not vals:
                continue
            if len(set(vals.values())) != 1:
                violations.append({"kind": "fresh-process-nondeterminism", "cfg": ref_cfgs[k],
                                   "variants": {n: list(v) for n, v in vals.items()}})
                continue
            name0 = sorted(vals)[0]
            refs[k] = dict(results[name0][ref_ids[k]]["result"])
        # ---- a few references in truly cold interpreters (random hash seed)
        cold = 0
        cold_keys = [k for k in sorted(refs) if not ref_cfgs[k].get("input_mode")][
            : (4 if quick else 24)]
        procs = []
        sb = os.environ.get("VERIF_COLD_SCRATCH") or ("/dev/shm" if os.path.isdir("/dev/shm") else "/tmp")
        import shutil
        import tempfile
        cold_dir = tempfile.mkdtemp(prefix="pdb2pqr-verif-cold-", dir=sb)
        for i, k in enumerate(cold_keys):
            env = dict(os.environ, PYTHONHASHSEED=str((seed * 131 + i * 7 + 3) % 100000 + 1),
                       PYTHONDONTWRITEBYTECODE="1")
            procs.append((k, subprocess.Popen(
                [driver.PYTHON, "-c", COLD_SCRIPT, os.environ.get("VERIF_REPO", "/repo"),
                 driver.VERIF_ROOT, json.dumps(ref_cfgs[k]), os.path.join(cold_dir, str(i))],
                stdout=subprocess.PIPE, stderr=subprocess.DEVNULL, env=env)))
        for k, p in procs:
            out, _ = p.communicate(timeout=300)
            try:
                r = json.loads(out.decode().strip().splitlines()[-1])
            except (ValueError, IndexError):
                harness_errors.append(("cold", {"harness_error": "cold reference produced no result"}))
                continue
            cold += 1
            if (r["outcome"], r["sha"]) != (refs[k]["outcome"], refs[k]["sha"]):
                violations.append({"kind": "fresh-process-nondeterminism", "cfg": ref_cfgs[k],
                                   "variants": {"cold": [r["outcome"], r["sha"]],
                                                "server": [refs[k]["outcome"], refs[k]["sha"]]}})
        shutil.rmtree(cold_dir, ignore_errors=True)
        # ---- histories vs the model
        stats = {"histories": 0, "runs": 0, "runs_checked": 0, "faulted_runs_fired": 0,
                 "failing_runs": 0, "api_ops": 0, "perturb_ops": 0, "revisit_after_other": 0,
                 "revisit_after_failed_or_aborted": 0, "aba": 0, "reuse_namespace_runs": 0,
                 "in_place_runs": 0, "ambient_varied_runs": 0, "ambient_axes": {},
                 "abort_sweep_aborts": 0,
                 "faults_fired": {}}
        sigs = set()
        pairs = set()
        samples = []
        first_bad = None
        hist_by_id = {h["id"]: h for h in hists}
        for name in hist_servers:
            for jid, m in sorted(results[name].items()):
                if not jid.startswith("h") or "result" not in m:
                    continue
                h = hist_by_id[jid]
                if jid.startswith("ha"):
                    h = dict(h, ops=m["result"]["ops"])
                    stats["abort_sweep_aborts"] += sum(
                        1 for o in m["result"]["obs"] if o.get("fired"))
                obs = m["result"]["obs"]
                stats["histories"] += 1
                seen_cfg = {}
                last_kind = None
                nontrivial = False
                for i, (op, o) in enumerate(zip(h["ops"], obs)):
                    if op["op"] == "api":
                        stats["api_ops"] += 1
                        last_kind = "api:" + op["call"]
                        continue
                    if op["op"] == "perturb":
                        stats["perturb_ops"] += 1
                        last_kind = "perturb"
                        continue
                    stats["runs"] += 1
                    if op.get("entry") == "main_driver_reuse":
                        stats["reuse_namespace_runs"] += 1
                    if op.get("stable"):
                        stats["in_place_runs"] += 1
                    if op.get("ambient"):
                        stats["ambient_varied_runs"] += 1
                        for ak in op["ambient"]:
                            stats["ambient_axes"][ak] = stats["ambient_axes"].get(ak, 0) + 1
                    ck = corpus.cfg_key(op.get("cfg") or h["pool"][op["cfg_index"]])
                    aborted = bool(op.get("faults") and o.get("fired"))
                    if aborted:
                        stats["faulted_runs_fired"] += 1
                        for fk in o.get("fired_kinds") or []:
                            stats["faults_fired"][fk] = stats["faults_fired"].get(fk, 0) + 1
                        last_kind = "aborted"
                        continue
                    stats["runs_checked"] += 1
                    if o["outcome"] != "ok":
                        stats["failing_runs"] += 1
                    if ck in seen_cfg and seen_cfg[ck] != i - 1:
                        nontrivial = True
                        stats["revisit_after_other"] += 1
                        if last_kind in ("aborted", "failed"):
                            stats["revisit_after_failed_or_aborted"] += 1
                        pairs.add((last_kind, runner.sha(ck.encode())[:10]))
                    seen_cfg[ck] = i
                    last_kind = "failed" if o["outcome"] != "ok" else "run"
                if nontrivial:
                    sigs.add(runner.sha(json.dumps(h["ops"], sort_keys=True).encode())[:16])
                if len(samples) < 2:
                    samples.append({"server": name, "ops": h["ops"][:8],
                                    "obs": obs[:8]})
                bad = compare_history(h["ops"], obs, h["pool"], refs)
                if bad and first_bad is None:
                    first_bad = (name, h, bad)
        # ---- minimise the first violating history (fresh worlds on the same server)
        if first_bad is not None:
            name, h, bad = first_bad
            cnt = [0]

            def fails(ops):
                cnt[0] += 1
                jid = f"s{cnt[0]}"
                r, _ = pool_srv.run({name: [{"id": jid, "kind": "c11.history", "ops": ops,
                                             "pool": h["pool"]}]})
                m = r[name].get(jid, {})
                if "result" not in m:
                    return False
                b = compare_history(ops, m["result"]["obs"], h["pool"], refs)
                return b is not None and b["kind"] == bad["kind"]

            ops = list(h["ops"][: bad["op_index"] + 1])
            # ddmin over everything before the violating run (which is kept)
            head, last = ops[:-1], ops[-1:]
            n = 2
            while len(head) >= 1:
                chunk = max(1, len(head) // n)
                reduced = False
                for i in range(0, len(head), chunk):
                    cand = head[:i] + head[i + chunk:]
                    if fails(cand + last):
                        head = cand
                        n = max(n - 1, 2)
                        reduced = True
                        break
                if not reduced:
                    if chunk == 1:
                        break
                    n = min(len(head), n * 2)
            ops = head + last
            # make cfgs explicit so the replay file needs no pool
            expl = []
            for op in ops:
                op = dict(op)
                if op["op"] == "run" and "cfg" not in op:
                    op["cfg"] = h["pool"][op.pop("cfg_index")]
                expl.append(op)
            env = dict(next(s[1] for s in servers if s[0] == name))
            doc = {"kind": bad["kind"], "ops": expl, "server_env": env, "detail": bad,
                   "original_len": len(h["ops"]), "property": "C11"}
            # `./verif replay` runs the history as the first job of a fresh server (address
            # randomisation off), i.e. in one canonical memory layout.  A violation that
            # depends on object addresses may need a different heap offset there: find one
            # under which it reproduces and store it in the file.
            doc["reproducibility"] = "not confirmed in the canonical replay layout"
            for wj in (0, 50_000, 200_000, 7_000, 1_000_000, 333_000, 20_000, 600_000, 3_000,
                       120_000, 450_000, 2_000_000, 80_000, 15_000):
                doc["world_junk"] = wj
                try:
                    if replay(doc, quiet=True) == 1:
                        doc["reproducibility"] = "confirmed in the canonical replay layout"
                        break
                except driver.HarnessError:
                    break
            path = evidence.write_replay("C11", h["seed"], doc)
            if doc["reproducibility"].startswith("confirmed"):
                replay_paths.insert(0, path)
            else:
                replay_paths.append(path)
                unconfirmed_paths.add(path)
            violations.append(bad)
        for n, v in enumerate(v for v in violations if v["kind"] == "fresh-process-nondeterminism"):
            if n < 3:
                doc = {"kind": v["kind"], "ops": [{"op": "run", "cfg": v["cfg"]}],
                       "variants": v["variants"], "property": "C11",
                       "reproducibility": "not confirmed in the canonical replay layout"}
                # three fresh worlds (hash seed / allocator variants) with seeded heap offsets:
                # find offsets under which the variants disagree in the canonical layout
                for vj in ([0, 60_000, 400_000], [0, 7_000, 1_500_000], [150_000, 30_000, 0],
                           [3_000, 900_000, 20_000], [500_000, 0, 80_000], [0, 0, 0],
                           [10_000, 250_000, 2_000_000], [40_000, 120_000, 700_000]):
                    doc["variant_junk"] = vj
                    try:
                        if replay(doc, quiet=True) == 1:
                            doc["reproducibility"] = "confirmed in the canonical replay layout"
                            break
                    except driver.HarnessError:
                        break
                path = evidence.write_replay("C11", seed, doc, suffix=f"-fresh{n}")
                replay_paths.append(path)
                if not doc["reproducibility"].startswith("confirmed"):
                    unconfirmed_paths.add(path)

    wall = time.monotonic() - t0
    nskip = sum(len(v) for v in skipped.values())
    coverage = {
        "evaluations": stats["runs"],
        "distinct_nontrivial": len(sigs),
        "rule": ("one evaluation = one pdb2pqr run inside a seeded history (4-17 operations: "
                 "fault-free runs, fault-aborted runs, failing cfgs, other API calls, heap "
                 "perturbation, reuse of a parsed Namespace) executed in one interpreter; every "
                 "history is executed under two different hash seeds; every fault-free run is "
                 "compared with the fresh-world reference F(cfg), itself computed under "
                 f"{len(servers)} hash-seed/allocator variants that must agree.  A history is "
                 "non-trivial if it repeats a cfg after a different cfg, an API call, or a "
                 "failed/aborted run; distinct = distinct operation list."),
        "samples": samples or [{"note": "none"}],
        "exhaustive": False,
        "histories": stats["histories"],
        "distinct_cfgs": len(ref_cfgs),
        "reference_runs": ref_variants,
        "cold_interpreter_references": cold,
        "hash_seed_variants": [dict(s[1]) for s in servers],
        "simulated_runs": stats["runs"] + ref_variants,
        "runs_per_hour": round((stats["runs"] + ref_variants) / wall * 3600),
        "seeds_per_hour": round(stats["histories"] / wall * 3600),
        "simulated_time": "n/a - no clock is read by the code under test",
        "faults_fired": dict(sorted(stats["faults_fired"].items())),
        "reach_probes": {k: stats[k] for k in (
            "runs_checked", "faulted_runs_fired", "failing_runs", "api_ops", "perturb_ops",
            "revisit_after_other", "revisit_after_failed_or_aborted", "reuse_namespace_runs",
            "in_place_runs", "ambient_varied_runs", "abort_sweep_aborts")},
        "abort_sweep_histories": n_sweeps,
        "ambient_axes_varied": stats["ambient_axes"],
        "cfg_families": len(families),
        "coverage_guided_pool": cover_stats,
        "family_sweep_histories": sum(1 for h in hists if h["id"].startswith("hf")),
        "grand_tour_histories": sum(1 for h in hists if h["id"].startswith("ht")),
        "distinct_states": {"measure": "distinct (previous operation kind -> revisited cfg) "
                                       "pairs + distinct non-trivial histories",
                            "value": len(pairs) + len(sigs)},
        "components": {"real": ["pdb2pqr", "propka", "mmcif_pdbx", "numpy"],
                       "stub": ["files.rcsb.org (scripted in-process endpoint)"]},
        "jobs_skipped_by_deadline": nskip,
        "harness_errors": len(harness_errors),
    }
    evidence.write_evidence(
        "C11", tier, seed, "exploration", coverage,
        ["a forked child of an interpreter that has only imported pdb2pqr counts as a fresh "
         "process; a few references are additionally computed in cold interpreters",
         "only the PQR output is compared (the property says PQR)",
         "one version of propka / mmcif_pdbx is installed offline"],
        wall, len(violations))
    print(f"C11 {tier}: {stats['histories']} history executions, {stats['runs']} runs "
          f"({stats['runs_checked']} compared with the model), {len(ref_cfgs)} cfgs x "
          f"{len(servers)} fresh-world variants, {cold} cold, wall {wall:.0f}s, skipped {nskip}, "
          f"harness errors {len(harness_errors)}")
    if harness_errors:
        print("HARNESS-ERROR " + json.dumps(harness_errors[0])[:2000])
    if violations:
        # replays that were confirmed to reproduce in the canonical layout come first
        replay_paths.sort(key=lambda p: p in unconfirmed_paths)
        for p in replay_paths:
            print(f"VIOLATION property=C11 replay={p}")
        return 1
    if harness_errors or stats["runs"] == 0:
        return 2
    return 0


def replay(doc, quiet=False):
    from sim import driver

    say = (lambda *a: None) if quiet else print
    ops = doc["ops"]
    cfgs = {}
    for op in ops:
        if op["op"] == "run":
            cfgs[corpus.cfg_key(op["cfg"])] = op["cfg"]
    if doc["kind"] == "fresh-process-nondeterminism":
        specs = [("A", {"PYTHONHASHSEED": "0"}, 1), ("B", {"PYTHONHASHSEED": "4242"}, 1),
                 ("C", {"PYTHONHASHSEED": "77", "PYTHONMALLOC": "malloc"}, 1)]
        junks = doc.get("variant_junk") or [0, 60_000, 400_000]
        with driver.ServerPool(specs) as pool:
            res, _ = pool.run({n: [{"id": "r", "kind": "c11.ref", "cfg": ops[0]["cfg"],
                                    "junk": junks[i % len(junks)], "junk_free": bool(i % 2)}]
                               for i, (n, _, _) in enumerate(specs)})
        vals = {n: (res[n]["r"]["result"]["outcome"], res[n]["r"]["result"]["sha"])
                for n in res if "result" in res[n].get("r", {})}
        say("replay: " + json.dumps(vals))
        return 1 if len(set(vals.values())) > 1 else 0
    env = doc.get("server_env") or {"PYTHONHASHSEED": "0"}
    specs = [("W", env, 2), ("R", {"PYTHONHASHSEED": "0"}, 4)]
    with driver.ServerPool(specs) as pool:
        rj = [{"id": f"r{i}", "kind": "c11.ref", "cfg": c} for i, c in enumerate(cfgs.values())]
        res, _ = pool.run({"W": [{"id": "h", "kind": "c11.history", "ops": ops, "pool": [],
                                  "junk": doc.get("world_junk", 0)}],
                           "R": rj})
    refs = {}
    for i, k in enumerate(cfgs):
        m = res["R"].get(f"r{i}", {})
        if "result" in m:
            refs[k] = m["result"]
    m = res["W"].get("h", {})
    if "result" not in m:
        say("HARNESS-ERROR " + json.dumps(m)[:1500])
        return 2
    bad = compare_history(ops, m["result"]["obs"], [], refs)
    say("replay: " + json.dumps(bad))
    return 1 if bad and bad["kind"] == doc["kind"] else 0

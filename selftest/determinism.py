"""Determinism self-test of the simulator (DESIGN.md 2.4).

Every job is executed several times -- in different server processes, at different
worker counts, and (for the harness itself) under a different PYTHONHASHSEED of the
*driver* -- and the canonical digest of each job result must be identical.  For jobs
whose world hash seed differs the *verdict-relevant* part must agree as well (that is
C11's statement; a difference there is reported separately).

usage: ./verif selftest determinism [--n N]
"""

from __future__ import annotations

import hashlib
import json
import random
import time


def digest(obj):
    return hashlib.sha256(json.dumps(obj, sort_keys=True, default=str).encode()).hexdigest()


def build_jobs(seed, n):
    from checks import c11, c12, c14
    from sim import corpus

    jobs = []
    for j in range(n):
        jobs.append({"id": f"c14c{j}", "kind": "c14.component", "seed": seed,
                     "first": j * 20, "count": 20})
    for j in range(n):
        jobs.append({"id": f"c14p{j}", "kind": "c14.pipeline",
                     "cfg": c14.gen_pipeline_cfg(seed * 1_000_003 + j)})
    rng = random.Random(seed + 5)
    pool = []
    while len(pool) < 12:
        pool.append(c11.gen_cfg(rng))
    for j in range(max(4, n // 4)):
        ops = c11.gen_history(seed * 1_000_003 + j, pool[:6])
        jobs.append({"id": f"c11h{j}", "kind": "c11.history", "ops": ops, "pool": pool[:6]})
    names = ["hid-amber", "hid-clean", "ajj-parse-secondary", "hid-propka"]
    nsl = 40
    for j in range(max(4, n // 8)):
        name = names[j % len(names)]
        jobs.append({"id": f"c12s{j}", "kind": "c12.cfg", "cfg": c12.CFGS[name], "cfg_name": name,
                     "seed": seed + j, "tier": "quick", "slice": [j % nsl, nsl],
                     "prev_cfg": c12.CFGS["hid-clean"]})
    # the newer job kinds
    jobs.append({"id": "c11sweep", "kind": "c11.abort_sweep", "cfg": pool[0], "others": pool[1:3],
                 "max_aborts": 12})
    for j in range(4):
        jobs.append({"id": f"c11cov{j}", "kind": "c11.cover", "cfg": pool[j]})
        jobs.append({"id": f"c11ref{j}", "kind": "c11.ref", "cfg": pool[j], "junk": 50000 * j,
                     "junk_free": bool(j % 2)})
    trig = c12.trigger_scenarios()
    jobs.append({"id": "c12t", "kind": "c12.scenarios", "keep_going": True,
                 "scenarios": trig[:: max(1, len(trig) // 10)]})
    _ = corpus
    return jobs


def main(args, seed):
    from sim import driver

    n = 48
    if "--n" in args:
        n = int(args[args.index("--n") + 1])
    t0 = time.monotonic()
    jobs = build_jobs(seed, n)
    # same worlds at three worker counts, plus worlds under another hash seed and another
    # allocator: nothing in a job result may depend on any of these
    variants = [("par16", {"PYTHONHASHSEED": "0"}, 16), ("par3", {"PYTHONHASHSEED": "0"}, 3),
                ("par7", {"PYTHONHASHSEED": "0"}, 7), ("hs4242", {"PYTHONHASHSEED": "4242"}, 16),
                ("malloc", {"PYTHONHASHSEED": "77", "PYTHONMALLOC": "malloc"}, 11)]
    digs = {}
    for name, env, par in variants:
        res, skipped = driver.run_simple(list(jobs), par=par, env_extra=env, job_timeout=900,
                                         name=name)
        for jid, m in res.items():
            if "result" not in m:
                print(f"HARNESS-ERROR job {jid} on {name}: {json.dumps(m)[:500]}")
                return 2
            digs.setdefault(jid, {})[name] = digest(m["result"])
    bad = {jid: d for jid, d in digs.items() if len(set(d.values())) != 1}
    print(f"determinism: {len(jobs)} jobs x {len(variants)} executions, "
          f"{len(bad)} with differing digests, wall {time.monotonic() - t0:.0f}s")
    if bad:
        for jid, d in sorted(bad.items())[:10]:
            print(f"HARNESS-ERROR nondeterministic job {jid}: {d}")
        return 2
    return 0

"""Merge result lines of a sensitivity run's LOG (as printed by selftest/sensitivity.py:
'<name> <property> <expected> <verdict...> <secs>s [detail] [class=...]') into
selftest/RESULTS.md.  For runs whose snapshot (and RESULTS.md) is gone.
usage: merge_log.py <log> [name-substring ...]"""
import os
import re
import sys

HERE = os.path.dirname(os.path.abspath(__file__))
sys.path.insert(0, os.path.dirname(HERE))
from selftest import sensitivity  # noqa: E402

what = {m["name"]: m.get("what", "") for m in sensitivity.load_mutations()}
rows = []
for line in open(sys.argv[1]):
    m = re.match(r"^(\S+) (C\d\d) (violation|quiet) (OK-caught|OK-quiet|MISSED rc=\d|FALSE-ALARM|"
                 r"CAUGHT-but-replay[^0-9]*rc=\d original rc=\d) (\d+)s(.*)$", line.rstrip())
    if not m or m.group(1) not in what:
        continue
    if sys.argv[2:] and not any(s in m.group(1) for s in sys.argv[2:]):
        continue
    cls = m.group(6).split("class=")[1].strip() if "class=" in m.group(6) else ""
    rows.append(f"| {m.group(1)} | {m.group(2)} | {m.group(3)} | {m.group(4)} | `{cls}` | "
                f"{what[m.group(1)].replace('|', '/')} |\n")
path = os.path.join(HERE, "RESULTS.md")
head, old = [], []
for line in open(path):
    if line.startswith("| ") and not line.startswith("| mutation") and not line.startswith("|---"):
        old.append(line)
    elif not old:
        head.append(line)
names = {r.split("|")[1].strip() for r in rows}
with open(path, "w") as fh:
    fh.writelines(head + [r for r in old if r.split("|")[1].strip() not in names] + rows)
print(f"merged {len(rows)} rows: {sorted(names)}")

"""Sensitivity self-test: every listed mutation of pdb2pqr must be caught (or, for the
ones marked quiet, must NOT be flagged) by the quick tier of the check that owns the
property, and every replay file written must reproduce on the mutated tree and stay
quiet on the unmutated one.

Mutations come from selftest/mutations.json (hand-written) and from /verif/seeded/*/
(patch.diff files produced by independent sub-agents).  Each mutation is applied to a
scratch copy of /repo's pdb2pqr package under /dev/shm (or $TMPDIR), never to /repo.

usage: ./verif selftest sensitivity [name-substring ...] [--tier quick|thorough]
"""

from __future__ import annotations

import json
import os
import shutil
import subprocess
import sys
import tempfile
import time

HERE = os.path.dirname(os.path.abspath(__file__))
VERIF_ROOT = os.path.dirname(HERE)


def load_mutations():
    with open(os.path.join(HERE, "mutations.json")) as fh:
        muts = json.load(fh)
    seeded = os.path.join(VERIF_ROOT, "seeded")
    if os.path.isdir(seeded):
        for d in sorted(os.listdir(seeded)):
            meta = os.path.join(seeded, d, "meta.json")
            patch = os.path.join(seeded, d, "patch.diff")
            if os.path.exists(meta) and os.path.exists(patch):
                with open(meta) as fh:
                    m = json.load(fh)
                # a compliant refactoring (expect: quiet) may list several properties: every
                # listed check must stay quiet on it
                for prop in m.get("properties") or [m["property"]]:
                    suffix = "" if not m.get("properties") else "-" + prop
                    muts.append({"name": "seeded-" + d + suffix, "property": prop,
                                 "expect": m.get("expect", "violation"), "patch": patch,
                                 "what": m.get("what", "")})
    return muts


def make_copy(repo, dst):
    os.makedirs(dst)
    shutil.copytree(os.path.join(repo, "pdb2pqr"), os.path.join(dst, "pdb2pqr"),
                    ignore=shutil.ignore_patterns("__pycache__"))


def apply(mut, dst):
    if mut.get("patch"):
        subprocess.run(["git", "init", "-q"], cwd=dst, check=True)
        r = subprocess.run(["git", "apply", "--include=pdb2pqr/*", mut["patch"]], cwd=dst,
                           capture_output=True, text=True)
        if r.returncode != 0:
            raise RuntimeError("patch does not apply: " + r.stderr[-500:])
        return
    for e in mut["edits"]:
        p = os.path.join(dst, e["file"])
        with open(p) as fh:
            s = fh.read()
        if s.count(e["old"]) != 1:
            raise RuntimeError(f"{mut['name']}: anchor occurs {s.count(e['old'])}x in {e['file']}")
        with open(p, "w") as fh:
            fh.write(s.replace(e["old"], e["new"]))


def run(cmd, env, timeout):
    p = subprocess.run(cmd, cwd=VERIF_ROOT, env=env, capture_output=True, text=True,
                       timeout=timeout)
    return p.returncode, p.stdout + p.stderr


def main(args, seed):
    tier = "quick"
    if "--tier" in args:
        i = args.index("--tier")
        tier = args[i + 1]
        del args[i:i + 2]
    muts = load_mutations()
    if args:
        muts = [m for m in muts if any(a in m["name"] for a in args)]
    base = "/dev/shm" if os.path.isdir("/dev/shm") and os.access("/dev/shm", os.W_OK) else None
    root = tempfile.mkdtemp(prefix="pdb2pqr-verif-sens-", dir=base)
    repo = os.environ.get("VERIF_REPO", "/repo")
    rows = []
    ok_all = True
    try:
        for m in muts:
            t0 = time.monotonic()
            dst = os.path.join(root, m["name"])
            make_copy(repo, dst)
            try:
                apply(m, dst)
            except RuntimeError as e:
                rows.append((m["name"], m["property"], m["expect"], "APPLY-FAILED", str(e)[:200]))
                ok_all = False
                continue
            env = dict(os.environ, VERIF_REPO=dst, VERIF_SEED=str(seed),
                       VERIF_EVIDENCE_DIR=os.path.join(dst, "evidence"),
                       VERIF_REPLAY_DIR=os.path.join(dst, "replays"))
            rc, out = run([os.path.join(VERIF_ROOT, "verif"), m["property"], "--tier", tier],
                          env, 3600)
            viol = [l for l in out.splitlines() if l.startswith("VIOLATION")]
            verdict = "?"
            detail = ""
            if m["expect"] == "quiet":
                verdict = "OK-quiet" if rc == 0 and not viol else "FALSE-ALARM"
                if verdict != "OK-quiet":
                    detail = " | ".join(out.splitlines()[-4:])[:400]
            else:
                if rc == 1 and viol:
                    # replay must reproduce on the mutant and be quiet on the original
                    rp = viol[0].split("replay=")[1].strip()
                    rc_m, out_m = run([os.path.join(VERIF_ROOT, "verif"), "replay", rp], env, 1200)
                    env_o = dict(env, VERIF_REPO=repo)
                    rc_o, out_o = run([os.path.join(VERIF_ROOT, "verif"), "replay", rp], env_o, 1200)
                    if rc_m == 1 and rc_o == 0:
                        verdict = "OK-caught"
                    else:
                        verdict = f"CAUGHT-but-replay mutant rc={rc_m} original rc={rc_o}"
                        detail = " | ".join((out_m + out_o).splitlines()[-4:])[:400]
                    try:
                        with open(rp) as fh:
                            d = json.load(fh)
                        detail += " class=" + str(d.get("class") or d.get("kind"))
                    except OSError:
                        pass
                else:
                    verdict = f"MISSED rc={rc}"
                    detail = " | ".join(out.splitlines()[-3:])[:400]
            if not verdict.startswith("OK"):
                ok_all = False
            rows.append((m["name"], m["property"], m["expect"], verdict,
                         f"{time.monotonic() - t0:.0f}s {detail}"))
            print(" ".join(str(x) for x in rows[-1]))
            sys.stdout.flush()
            shutil.rmtree(dst, ignore_errors=True)
    finally:
        shutil.rmtree(root, ignore_errors=True)
    print(f"sensitivity: {sum(1 for r in rows if r[3].startswith('OK'))}/{len(rows)} as expected")
    if True:
        # keep the table next to the catalogue; a partial run updates / adds its rows
        what = {m["name"]: m.get("what", "") for m in load_mutations()}
        res_path = os.environ.get("VERIF_RESULTS_FILE") or os.path.join(HERE, "RESULTS.md")
        if args and os.path.exists(res_path):
            old_rows = []
            with open(res_path) as fh:
                for line in fh:
                    if line.startswith("| ") and not line.startswith("| mutation") and \
                            not line.startswith("|---"):
                        cells = [c.strip() for c in line.strip().strip("|").split("|")]
                        if len(cells) >= 5:
                            old_rows.append((cells[0], cells[1], cells[2], cells[3],
                                             "class=" + cells[4].strip("`") if cells[4].strip("`")
                                             else ""))
            new_names = {r[0] for r in rows}
            rows = [r for r in old_rows if r[0] not in new_names] + rows
        head = subprocess.run(["git", "-C", repo, "rev-parse", "--short", "HEAD"],
                              capture_output=True, text=True).stdout.strip()
        with open(res_path, "w") as fh:
            fh.write("# Sensitivity self-test results\n\n"
                     f"`./verif selftest sensitivity --tier {tier}` with VERIF_SEED={seed} against "
                     f"scratch copies of /repo at {head}.  *OK-caught* = quick tier exits 1 with a "
                     "VIOLATION line, the replay file reproduces on the mutant (exit 1) and is quiet "
                     "on the unmutated tree (exit 0).  *OK-quiet* = exit 0 on an equivalent / "
                     "compliant change.\n\n"
                     "| mutation | property | expected | result | violation class | what |\n"
                     "|---|---|---|---|---|---|\n")
            for name, prop, expect, verdict, detail in rows:
                cls = detail.split("class=")[1] if "class=" in detail else ""
                fh.write(f"| {name} | {prop} | {expect} | {verdict} | `{cls}` | "
                         f"{what.get(name, '').replace('|', '/')} |\n")
    return 0 if ok_all else 1

"""Merge rows of RESULTS.md files written by partial sensitivity runs (e.g. in `vp run`
snapshots) into selftest/RESULTS.md: a row replaces the row of the same mutation name.
usage: merge_results.py <other RESULTS.md> [name-substring ...]"""
import os
import sys

HERE = os.path.dirname(os.path.abspath(__file__))


def rows_of(path):
    head, rows = [], []
    with open(path) as fh:
        for line in fh:
            if line.startswith("| ") and not line.startswith("| mutation") and \
                    not line.startswith("|---"):
                rows.append(line)
            elif not rows:
                head.append(line)
    return head, rows


def main():
    other = sys.argv[1]
    subs = sys.argv[2:]
    mine = os.path.join(HERE, "RESULTS.md")
    head, rows = rows_of(mine)
    _, new = rows_of(other)
    name = lambda r: r.split("|")[1].strip()  # noqa: E731
    new = [r for r in new if not subs or any(s in name(r) for s in subs)]
    names = {name(r) for r in new}
    out = [r for r in rows if name(r) not in names] + new
    with open(mine, "w") as fh:
        fh.writelines(head + out)
    print(f"merged {len(new)} rows: {sorted(names)}")


main()

#!/bin/sh
# Confirm a sub-agent's seeded change independently, in a fresh scratch worktree:
#   demo passes without the patch, fails with it; the pinned baseline suite still passes.
# usage: confirm_seed.sh <dir with patch.diff and demo.py> [skip-tests]
set -u
SRC=$1
ID=$(basename "$SRC")
WT=/tmp/confirm-$ID
git -C /repo worktree remove --force "$WT" 2>/dev/null
git -C /repo worktree add -q --detach "$WT" HEAD || exit 2
cd "$WT" || exit 2
timeout 600 /venv/bin/python "$SRC/demo.py" > /tmp/confirm-$ID-demo-without.log 2>&1
echo "demo WITHOUT patch: rc=$? ($(tail -1 /tmp/confirm-$ID-demo-without.log | cut -c1-150))"
git apply "$SRC/patch.diff" || { echo "PATCH DOES NOT APPLY"; exit 2; }
/venv/bin/python -c "import pdb2pqr, sys; assert pdb2pqr.__file__.startswith('$WT'), pdb2pqr.__file__" || exit 2
timeout 600 /venv/bin/python "$SRC/demo.py" > /tmp/confirm-$ID-demo-with.log 2>&1
echo "demo WITH patch:    rc=$? ($(tail -1 /tmp/confirm-$ID-demo-with.log | cut -c1-150))"
if [ "${2:-}" != "skip-tests" ]; then
  timeout 3000 /venv/bin/python -m pytest -ra -q -p no:cacheprovider --timeout=900 --continue-on-collection-errors --junitxml=/tmp/confirm-$ID-junit.xml > /tmp/confirm-$ID-tests.log 2>&1
  python3 - "$ID" <<'PY'
import json, sys, xml.etree.ElementTree as ET
base=set(json.load(open('/root/.vp/BASELINE.json'))['stable_pass'])
t=ET.parse(f'/tmp/confirm-{sys.argv[1]}-junit.xml')
passed=set()
for tc in t.iter('testcase'):
    if not any(ch.tag in ('failure','error','skipped') for ch in tc):
        passed.add(tc.get('classname')+'::'+tc.get('name'))
print(f"baseline with patch: {len(base & passed)}/{len(base)} stable tests pass; missing: {sorted(base-passed)[:5]}")
PY
fi
cd /
git -C /repo worktree remove --force "$WT"
rm -f /tmp/confirm-$ID-junit.xml
